"""C04 - after every completed operation the CSV file alone holds the current contents (DESIGN 4, C04)."""

import csv
import datetime as dt
import datetime as _dt
import io
import os

from .. import alphabet, common, ladder, refmodel, world as W
from .base import E1Check, viol

UTC = dt.timezone.utc


class C04Alphabet(alphabet.Alphabet):
    """Points whose strings contain delimiters, quotes, CR/LF and non-ASCII (no reserved codec words)."""

    def __init__(self, seed=0, wide=False):
        super().__init__(seed)
        t = self.t
        uni = "日" if wide else "ü"
        self.s_comma = "x,y"
        self.s_mixed = 'q"uo;te'
        self.s_crlf = "l1\r\nl2"
        self.points = {
            "P0": (t[0], "m", {"a": self.s_comma}, {"v": 1}),
            "P1": (t[1], "m", {"a": self.s_mixed, "b": "é" + uni}, {"v": 2.5}),
            "P2": (t[1], "n", {"a": self.s_crlf}, {"w": -1}),
            "P3": (t[2], "m,n", {"k'": None}, {"v": None}),
            "P4": (t[0], "n", {}, {}),
            "P5": (t[3], "m", {"a": "\n", "c": "\r"}, {"v": 0}),
            # CPython < 3.13 csv.writer does not quote a lone CR when lineterminator lacks it (QUOTE_MINIMAL), so
            # such a cell cannot be read back by any reader; that is the stdlib's limitation, not tinyflux's.
            "P5b": (t[3], "m", {"a": "\n", "c": "\r\n"}, {"v": 0}),
        }
        self.z = "z;'\"\n" + uni
        # a file larger than one 8 KiB read-ahead chunk: 130 rows of about 75 bytes
        self.big = []
        for i in range(130):
            name = "B%d" % i
            self.points[name] = (t[0] + _dt.timedelta(milliseconds=i), "big", {"i": str(i), "pad": "p" * 30}, {"v": i})
            self.big.append(name)


DIALECTS = {
    "default": {},
    "semicolon": {"delimiter": ";"},
    "quote_all": {"quoting": csv.QUOTE_ALL},
    "lf": {"lineterminator": "\n"},
    "squote": {"quotechar": "'"},
    "escape": {"escapechar": "\\", "doublequote": False},
    "unix": {"dialect": "unix"},
}
ENCODINGS = [None, "utf-8", "utf-16", "latin-1"]


def decode_file(data, cfg_csv):
    """Independent reader: bytes -> text -> csv rows -> points, written from the documented row layout."""
    enc = cfg_csv.get("encoding") or "utf-8"
    text = data.decode(enc)
    kw = {k: v for k, v in cfg_csv.items() if k not in ("encoding", "flush_on_insert", "access_mode", "newline", "create_dirs")}
    out = []
    for row in csv.reader(io.StringIO(text, newline=""), **kw):
        t = dt.datetime.fromisoformat(row[0]).replace(tzinfo=UTC)
        m = row[1]
        tags, fields = {}, {}
        rest = row[2:]
        if len(rest) % 2:
            raise ValueError(f"odd number of key/value cells in row {row!r}")
        for k, v in zip(rest[0::2], rest[1::2]):
            if k.startswith("_tag_"):
                tags[k[5:]] = None if v == "_none" else v
            elif k.startswith("t_"):
                tags[k[2:]] = None if v == "_none" else v
            elif k.startswith("_field_") or k.startswith("f_"):
                key = k[7:] if k.startswith("_field_") else k[2:]
                if v == "_none":
                    fields[key] = None
                else:
                    try:
                        fields[key] = int(v)
                    except ValueError:
                        fields[key] = float(v)
            else:
                raise ValueError(f"cell {k!r} is neither a tag nor a field key")
        out.append((t, m, tags, fields))
    return out


def c04_ops(alpha, cfg, tier):
    t = alpha.t
    sel_a = ("cmp", "tags", ("a",), "==", alpha.s_comma)
    ops = [
        ("insert", "P0", None, False, "db"),
        ("insert", "P1", None, True, "db"),           # compact prefixes: both styles mix in one file
        ("insert", "P2", None, False, "db"),
        ("insert", "P3", None, True, "db"),
        ("insert_multiple", ("P4", "P5"), None, False, "db"),
        ("remove", sel_a, None, "db"),
        ("remove", ("cmp", "time", (), ">=", t[1]), None, "db"),
        ("update", ("cmp", "measurement", (), "==", "m"), W.mkspec(tags={"a": alpha.z}), None, "db"),
        ("update_all", W.mkspec(fields=("fn", "f_inc")), "db"),
        ("drop", "n"),
        ("remove_all",),
        ("get", sel_a, None),
        ("contains", ("cmp", "measurement", (), "==", "m"), None),
        ("reopen",),
        ("reopen", "with"),                                       # closed by leaving a `with` block
    ]
    if cfg.get("csv", {}).get("access_mode") == "w+":
        ops = [o for o in ops if o[0] != "reopen"]  # opening with w+ truncates by definition
    if cfg.get("csv", {}).get("lineterminator") == "\n":
        ops[4] = ("insert_multiple", ("P4", "P5b"), None, False, "db")
    if cfg.get("init"):
        # big-file configuration: reads that stop at the first / an early row leave the position inside the first chunk
        ops = [("get", ("cmp", "tags", ("i",), "==", "0"), None), ("contains", ("cmp", "tags", ("i",), "==", "3"), None),
               ("insert", "P0", None, False, "db"), ("insert", "P1", None, True, "db"),
               ("remove", ("cmp", "tags", ("i",), "==", "1"), None, "db"),
               ("update", ("cmp", "tags", ("i",), "==", "2"), W.mkspec(tags={"a": alpha.z}), None, "db"), ("reopen",)]
        return ops
    if tier != "quick":
        ops += [("remove", ("cmp", "measurement", (), "==", "zz"), None, "db"), ("reindex",),
                ("update", sel_a, W.mkspec(time=("fn", "t_swap")), None, "db")]
    return ops


class C04(E1Check):
    prop = "C04"

    def make_alphabet(self, seed):
        return ladder.install(C04Alphabet(seed))

    def rule(self):
        return (
            "one BFS per CSV configuration (flush_on_insert x encoding x csv dialect; compact prefixes per insert) over "
            "insert / insert_multiple / partial, full, empty remove / update / remove_all / drop_measurement / early-stopping "
            "get and contains / close+reopen with delimiter-, quote-, CR/LF- and non-ASCII-laden strings; after every returned "
            "operation (flush_on_insert=True) and after closing a replica of every state (both modes) an independent reader "
            "(bytes -> decode -> csv.reader -> own row decoder) must yield the reference contents in insertion order, and a "
            "fresh TinyFlux with the same options must read the same"
        )

    def configs(self):
        cfgs = []

        def add(flush, enc, dname, mode=None):
            opts = dict(DIALECTS[dname])
            if mode:
                opts["access_mode"] = mode
            if enc is not None:
                opts["encoding"] = enc
            if not flush:
                opts["flush_on_insert"] = False
            name = f"csv/flush={'T' if flush else 'F'}/enc={enc or 'default'}/{dname}" + (f"/mode={mode}" if mode else "")
            cfgs.append({"name": name, "storage": "csv", "auto_index": True, "csv": opts})

        if self.tier == "quick":
            add(True, None, "default")
            for enc in ENCODINGS[1:]:
                add(True, enc, "default")
            for d in list(DIALECTS)[1:]:
                add(True, None, d)
            add(False, None, "default")
            add(False, "utf-16", "default")
            add(False, "latin-1", "semicolon")
            add(True, "utf-16", "quote_all")
            add(False, None, "unix")
            add(True, None, "default", "w+")
            cfgs[0]["auto_index"] = True
            cfgs[1]["auto_index"] = False
            for flush, auto in ((True, True), (True, False), (False, True)):
                cfgs.append({"name": f"csv/flush={'T' if flush else 'F'}/{'auto' if auto else 'manual'}/bigfile-130-rows", "storage": "csv",
                             "auto_index": auto, "csv": {} if flush else {"flush_on_insert": False}, "N": 140, "D": 3,
                             "init": (("insert_multiple", tuple(self.alpha.big), None, False, "db"),)})
        else:
            for flush in (True, False):
                for enc in ENCODINGS:
                    for d in DIALECTS:
                        add(flush, enc, d)
            add(True, None, "default", "w+")
            add(False, "utf-16", "semicolon", "w+")
            for i, c in enumerate(cfgs):
                c["auto_index"] = i % 3 != 1
            for flush, auto, enc in ((True, True, None), (True, False, None), (False, True, None), (False, False, "utf-16")):
                opts = {} if flush else {"flush_on_insert": False}
                if enc:
                    opts["encoding"] = enc
                cfgs.append({"name": f"csv/flush={'T' if flush else 'F'}/{'auto' if auto else 'manual'}/enc={enc or 'default'}/bigfile-130-rows",
                             "storage": "csv", "auto_index": auto, "csv": opts, "N": 140, "D": 4,
                             "init": (("insert_multiple", tuple(self.alpha.big), None, False, "db"),)})
        return cfgs + self.ladder_cfgs()

    def ladder_cfgs(self):
        out = []
        for c in ladder.configs(self.ladder_sizes(), storages=("csv",), autos=(True, False), D=2, big_depth=1 if self.tier == "quick" else 2):
            out.append(c)
            if c["auto_index"] and c["ladder"] != 40:
                d = dict(c)
                d.update(name=c["name"] + "/flush=F/utf-16", csv={"flush_on_insert": False, "encoding": "utf-16"})
                out.append(d)
        return out

    def bounds(self):
        return {"N": 3, "D": 3} if self.tier == "quick" else {"N": 3, "D": 4, "max_states": 20000}

    def budget(self):
        return 600 if self.tier == "quick" else 1200

    def op_list(self, cfg):
        return c04_ops(self.alpha, cfg, self.tier)

    def _sig(self, cfg, what, opkind):
        o = cfg.get("csv", {})
        dims = []
        if o.get("flush_on_insert") is False:
            dims.append("flush_on_insert=False")
        if o.get("encoding"):
            dims.append("encoding=" + o["encoding"])
        if o.get("access_mode"):
            dims.append("access_mode=" + o["access_mode"])
        d = [k for k in o if k not in ("encoding", "flush_on_insert", "access_mode")]
        if d:
            dims.append("dialect:" + "+".join(sorted(d)))
        return f"C04|{what}|op={opkind}|{','.join(dims) or 'default-config'}"

    def _decode_check(self, cfg, data, expected, what, opkind):
        try:
            got = decode_file(data, cfg.get("csv", {}))
        except Exception as e:  # noqa
            return [viol("independent-reader", self._sig(cfg, what + "-undecodable", opkind), observed=f"{type(e).__name__}: {e}"[:200],
                         expected=expected, detail=f"bytes={data[:300]!r}")]
        if got != expected:
            return [viol("independent-reader", self._sig(cfg, what, opkind), observed=got, expected=expected, detail=f"bytes={data[:300]!r}")]
        return []

    def transition(self, T, counters):
        out = []
        if T.outcome[0] == "exc":
            return [viol("completes", self._sig(T.cfg, "operation-raised", T.op[0]), observed=T.outcome, expected="returns")]
        exp, exp_out = T.ref()
        k = T.op[0]
        if T.post != exp:
            out.append(viol("db-view", self._sig(T.cfg, "db-view-differs-from-reference", k), observed=T.post, expected=exp, detail=f"pre={T.pre!r}"))
        flush = T.cfg.get("csv", {}).get("flush_on_insert", True)
        if flush or k == "reopen":
            counters["file_decodes_immediate"] += 1
            out += self._decode_check(T.cfg, T.post_bytes, exp, "file-differs-after-op", k)
        return out

    def observe(self, w, stored, history, cfg, counters):
        """Close a replica of the state; the file alone must then hold the contents (both flush modes)."""
        from tinyflux import TinyFlux

        out = []
        lastop = history[-1][0] if history else "open"
        w.db.close()
        data = w.file_bytes()
        counters["file_decodes_after_close"] += 1
        out += [dict(v, kind="state") for v in self._decode_check(cfg, data, stored, "file-differs-after-close", lastop)]
        try:
            opts = dict(cfg.get("csv", {}))
            if opts.get("access_mode") in ("w", "w+"):
                opts["access_mode"] = "r"  # a fresh w+ open truncates by definition; read the file as it is
            db2 = TinyFlux(w.path, auto_index=False, **opts)
            got = [refmodel.rp_of_point(p) for p in db2.all(sorted=False)]
            db2.close()
            if got != stored:
                out.append(viol("fresh-tinyflux", self._sig(cfg, "fresh-TinyFlux-reads-differently", lastop), observed=got, expected=stored, kind="state"))
        except Exception as e:  # noqa
            out.append(viol("fresh-tinyflux", self._sig(cfg, "fresh-TinyFlux-cannot-read", lastop), observed=f"{type(e).__name__}: {e}"[:200],
                            expected=stored, kind="state"))
        return out

    def coverage_extra(self, res):
        return {"configurations": len(self.configs())}

    def ladder_op_list(self, cfg):
        return [o for o in ladder.ops(self.alpha, cfg) if not (o[0] == "insert" and o[1] == "P5")] + [("reopen",)]


def make(tier, seed):
    return C04(tier, seed)
