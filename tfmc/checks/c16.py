"""C16 - insert is append-only and its I/O cost does not depend on database size (DESIGN 4, C16).

The raw-I/O seam is used as a pure recorder: at every insert transition of every explored state the
step log of the call must contain no read and no truncate below the old size, the old bytes must
be a prefix of the new ones, the written bytes must be exactly the appended bytes, and the sequence
of step kinds must be the same for every state (per point for insert_multiple).  A deterministic
ladder of database sizes (10 .. 10 000 rows) extends the size axis beyond the BFS.
"""

import collections
import os

from .. import common, refmodel, world as W
from ..ioseam import SEAM, Plan
from .base import E1Check, viol
from .c01 import std_ops

INSERTS = ("insert", "insert_multiple")


def profile(steps):
    """Step kinds on the database file, without their sizes (seek targets kept)."""
    out = []
    for kind, detail in steps:
        if kind == "seek":
            out.append(f"seek({detail[1]},{detail[2]})")
        elif kind in ("write", "readinto", "truncate", "close", "open"):
            out.append(f"{kind}:{detail[0]}")
        else:
            out.append(kind)
    return tuple(out)


class C16(E1Check):
    prop = "C16"
    engine = "iofault"

    def rule(self):
        return (
            "BFS over histories of the standard alphabet on CSV (auto_index on/off x flush_on_insert on/off), with early-"
            "stopping reads and rewrites in the histories; every insert / insert_multiple transition is recorded through the "
            "raw-I/O seam: no readinto, no truncate below the old size, old bytes a prefix of the new bytes, written bytes == "
            "appended bytes, and one constant step profile per configuration (repeated per point for insert_multiple); plus a "
            "ladder of pre-filled databases of 10, 100, 1000, 10000 rows on which one insert must show the same profile"
        )

    def configs(self):
        cfgs = []
        for auto in (True, False):
            for flush in (True, False):
                cfgs.append({"name": f"csv/{'auto' if auto else 'manual'}/flush={'T' if flush else 'F'}", "storage": "csv",
                             "auto_index": auto, "csv": {} if flush else {"flush_on_insert": False}})
        return cfgs

    def bounds(self):
        return {"N": 3, "D": 4} if self.tier == "quick" else {"N": 4, "D": 5, "max_states": 40000}

    def budget(self):
        return 600 if self.tier == "quick" else 1200

    def worker_init(self):
        super().worker_init()
        SEAM.install()

    def op_list(self, cfg):
        ops = std_ops(self.alpha, cfg, self.tier)
        ops += [("contains", ("cmp", "measurement", (), "==", "m"), None), ("insert", "P0", "n", True, "db"),
                ("insert_multiple", ("P0", "P1", "P5"), None, False, "db")]
        return ops

    def enabled(self, op, contents, cfg, history):
        n = W.op_inserts(op)
        if n and len(contents) + n > cfg.get("N", self.bounds()["N"]) + (2 if op[0] == "insert_multiple" and len(op[1]) == 3 else 0):
            return False
        return True

    def is_std_probe(self, op):
        return op[0] == "insert_multiple" and len(op[1]) == 3

    def apply(self, world, op, T):
        if op[0] not in INSERTS:
            return world.apply(op)
        plan = SEAM.begin(Plan(watch=world.path))
        try:
            return world.apply(op)
        finally:
            SEAM.end()
            T.extra = plan

    def transition(self, T, counters):
        out = []
        k = T.op[0]
        if k not in INSERTS or T.extra is None:
            return out
        plan = T.extra
        cfgname = T.cfg["name"]
        flush = T.cfg.get("csv", {}).get("flush_on_insert", True)
        counters["insert_transitions"] += 1
        counters[f"insert_at_size_{len(T.pre)}"] += 1
        if T.outcome[0] == "exc":
            out.append(viol("insert-returns", f"C16|{k}|raised|{cfgname}", observed=T.outcome, expected="returns"))
            return out
        steps = plan.steps
        if T.pre_bytes != T.post_bytes and not any(s[0] == "write" for s in steps):
            raise common.ToolingError("I/O seam bypassed: the database file changed during an insert but no write step was recorded")
        # no existing data is read
        if any(s[0] == "readinto" for s in steps):
            out.append(viol("no-read", f"C16|{k}|reads-existing-data|{cfgname}", observed=profile(steps), expected="no readinto step"))
        # nothing but the database file is touched, nothing is reopened / copied / renamed
        foreign = [s for s in steps if s[0] in ("open", "close", "copy-open-dst", "copy-chunk", "replace", "rename", "unlink")]
        if foreign:
            out.append(viol("append-only", f"C16|{k}|rewrites-or-reopens|{cfgname}", observed=profile(steps), expected="seek/write/flush/fsync/truncate only"))
        # append-only bytes
        pre, post = T.pre_bytes or b"", T.post_bytes or b""
        if not post.startswith(pre):
            out.append(viol("prefix", f"C16|{k}|old-bytes-not-a-prefix|{cfgname}", observed=post, expected=pre))
        for s in steps:
            if s[0] == "truncate" and s[1][1] is not None and s[1][1] < len(pre):
                out.append(viol("no-truncate", f"C16|{k}|truncates-below-old-size|{cfgname}", observed=s, expected=len(pre)))
        written = sum(s[1][1] for s in steps if s[0] == "write")
        if flush and written != len(post) - len(pre):
            out.append(viol("written-bytes", f"C16|{k}|written-bytes-differ-from-appended|{cfgname}", observed=written, expected=len(post) - len(pre)))
        if not flush:
            # the rows may still be buffered; they must be appended (and nothing else changed) once the database is closed
            T.world.db.close()
            final = T.world.file_bytes() or b""
            T.world.db = T.world._open()
            exp, _ = T.ref()
            got = None
            try:
                got = [refmodel.rp_of_point(p) for p in T.world.db.storage.read()]
            except Exception as e:  # noqa
                got = repr(e)
            if not final.startswith(pre) or got != exp:
                out.append(viol("prefix", f"C16|{k}|after-close-not-appended|{cfgname}", observed=(final, got), expected=(pre, exp)))
        # constant profile: the same step kinds as one insert into a one-row database of this configuration
        prof = profile(steps)
        npts = 1 if k == "insert" else len(T.op[1])
        canon = self.canonical(T.cfg)
        counters[f"profile_len_{len(prof)}_points_{npts}"] += 1
        if not flush:
            # rows may sit in Python's buffer and reach the raw file at a later seek, so the raw profile of one call is
            # not constant; it must stay within the append-only step kinds and within a constant bound per point
            kinds = {p.split("(")[0].split(":")[0] for p in prof}
            if not kinds <= {"seek", "write", "flush"} or len(prof) > 6 * npts:
                out.append(viol("bounded-profile", f"C16|{k}|io-profile-unbounded-or-foreign|{cfgname}", observed=prof,
                                expected="only seek/write/flush steps, at most 6 per point"))
        elif prof != canon * npts:
            out.append(viol("constant-profile", f"C16|{k}|io-profile-differs|size={'0' if not T.pre else '>=1'}|{cfgname}",
                            observed=prof, expected=canon * npts, detail=f"stored points before: {len(T.pre)}"))
        return out

    def canonical(self, cfg):
        """Step profile of one insert into a fresh one-row database of this configuration (computed once per worker)."""
        cache = self.__dict__.setdefault("_canon", {})
        if cfg["name"] not in cache:
            saved = SEAM.plan
            SEAM.plan = None
            w = W.World.build(cfg, self.alpha, (("insert", "P0", None, False, "db"),))
            plan = SEAM.begin(Plan(watch=w.path))
            w.apply(("insert", "P1", None, False, "db"))
            SEAM.end()
            w.close()
            SEAM.plan = saved
            cache[cfg["name"]] = profile(plan.steps)
        return cache[cfg["name"]]

    def run(self, log=print):
        self.ladder_result = self.ladder(log)
        return super().run(log)

    def post_explore(self, res):
        """Ladder verdicts: the profile and the appended byte count must not depend on the database size."""
        base = {}
        for (auto, n, early), (prof, nsteps, appended, is_prefix) in sorted(self.ladder_result.items()):
            ref = base.setdefault(auto, (prof, appended, True))
            if (prof, appended, is_prefix) != ref:
                what = "old-bytes-not-a-prefix" if not is_prefix else "io-profile-depends-on-size"
                v = viol("ladder", f"C16|ladder|{what}|auto={auto}|after-early-read={early}", observed=(n, prof, appended, is_prefix), expected=ref, kind="ladder")
                v.update(property="C16", config="ladder", cfg={}, history=[])
                if res.viol_count[v["signature"]] == 0:
                    res.violations.append(v)
                res.viol_count[v["signature"]] += 1

    def ladder(self, log):
        """One insert on pre-filled databases of increasing size; returns {size: profile}."""
        common.import_tinyflux()
        common.install_clock(0)
        SEAM.install()
        from tinyflux import TinyFlux

        res = {}
        sizes = (0, 1, 10, 100, 1000, 10000) if self.tier == "quick" else (0, 1, 10, 100, 1000, 10000, 100000)
        for auto in (False, True):
            for n in sizes:
                path = os.path.join(common.db_dir(), "ladder.csv")
                row = "2021-06-01T12:00:00,m,_tag_a,x,_field_v,1.0\r\n"
                from tinyflux import TagQuery

                for early_read in (False, True):
                    with open(path, "w", newline="") as f:
                        f.write(row * n)
                    before = open(path, "rb").read()
                    db = TinyFlux(path, auto_index=auto)
                    if early_read and n:
                        db.insert(self.alpha.mk_point("P5"))  # an earlier append on this handle ...
                        before = open(path, "rb").read()
                        db.get(TagQuery().a == "x")  # ... then a read that stops at the first row: position left mid-file
                    plan = SEAM.begin(Plan(watch=path))
                    db.insert(self.alpha.mk_point("P5"))
                    SEAM.end()
                    db.close()
                    after = open(path, "rb").read()
                    res[(auto, n, early_read)] = (profile(plan.steps), len(plan.steps), len(after) - len(before), after.startswith(before))
                os.unlink(path)
        SEAM.uninstall()
        return res

    def coverage_extra(self, res):
        return {"ladder": {f"auto={a},rows={n},after_early_read={e}": {"steps": v[1], "appended_bytes": v[2], "old_bytes_prefix": v[3]}
                           for (a, n, e), v in self.ladder_result.items()}}

    def recheck(self, rec):
        if rec.get("kind") == "ladder":
            self.ladder_result = self.ladder(print)

            class R:
                violations, viol_count = [], collections.Counter()

            self.post_explore(R)
            return R.violations
        return super().recheck(rec)


def make(tier, seed):
    return C16(tier, seed)
