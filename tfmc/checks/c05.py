"""C05 - every valid Point survives serialization to CSV and back unchanged (DESIGN 4, C05).

Bounded-exhaustive universes of points (string atoms in every slot, singly and jointly; point
shapes; numeric edge values and every float64 exponent; timestamp edges), both key-prefix styles,
three csv dialects, through the real path: TinyFlux.insert on a real file, then a fresh TinyFlux on
the same file and all(sorted=False).
"""

import collections
import csv
import datetime as dt
import itertools
import math
import os

from .. import common, refmodel, univ
from .base import viol

UTC = dt.timezone.utc
T0 = dt.datetime(2021, 6, 1, 12, 0, 0, 123456, tzinfo=UTC)

ATOMS = ["", "a", ",", '"', "\r", "\n", "\r\n", "\0", "_", "t", "f", "_none", "_tag_", "_field_", "t_", "f_", " ",
         "é", "日", " ", "'", ";", "\\"]
HOT = ["", "a", ",", '"', "\n", "_none", "_tag_", "f_", "t", "_"]  # quick joint universe

DIALECTS = [("default", {}), ("semicolon", {"delimiter": ";"}), ("quote_all", {"quoting": csv.QUOTE_ALL})]

NUMBERS = [
    0, -0.0, 0.0, 1, -1, 2, 10, 255, 1.5, -1.5, 0.1, 1 / 3, 2 / 3, 1e22, 1e23, 1e-7, 1.0000000000000002, 123456789.123456789,
    math.inf, -math.inf, 5e-324, -5e-324, 2.2250738585072014e-308, 2.225073858507201e-308, 1.7976931348623157e308,
    -1.7976931348623157e308, 2**53 - 1, -(2**53 - 1), 2**53, 2**53 + 1, -(2**53 + 1), 2**63 - 1, -(2**63), 2**64, 10**30, -(10**30), 10**400,
    10**15, 10**16, 10**17, 9007199254740993, 1e15, 1e16, 1e17, 123456789012345678, None, 3.141592653589793, 2.718281828459045,
    1e308, 1e-308, 4.9e-324, 0.30000000000000004, 100.0, 1e2, 99999999999999990000.0, 7, 7.0, -7, 1e-5, 0.00001, 1e100,
]


def strings2():
    out = [""]
    out += [a for a in ATOMS if a != ""]
    out += [a + b for a in ATOMS if a for b in ATOMS if b]
    seen, res = set(), []
    for s in out:
        if s not in seen:
            seen.add(s)
            res.append(s)
    return res


def exponent_floats():
    import struct

    for e in range(0, 2047):  # 2047 = inf/nan exponent, excluded
        for sign in (0, 1):
            for mant in (0, 1, 1 << 51, (1 << 52) - 1):
                bits = (sign << 63) | (e << 52) | mant
                yield struct.unpack(">d", struct.pack(">Q", bits))[0]


def timestamps():
    out = []
    for y in (1700, 1883, 1969, 1970, 2000, 2038, 2106, 2240):  # the supported range of the property (1700-2240), not beyond
        for (mo, d, h, mi, s) in ((1, 1, 0, 0, 0), (12, 31, 23, 59, 59), (2, 28, 12, 30, 30), (11, 18, 17, 0, 0), (1, 19, 3, 14, 7), (6, 30, 23, 59, 0)):
            for us in (0, 1, 500000, 999999):
                out.append(dt.datetime(y, mo, d, h, mi, s, us, tzinfo=UTC))
    return out


class C05(univ.UnivCheck):
    prop = "C05"
    level = "exploration"

    def __init__(self, tier, seed):
        super().__init__(tier, seed)
        self.S2 = strings2()
        joint = HOT if tier == "quick" else ATOMS
        self.joint = joint
        # groups: (name, size, element function)
        G = []
        n_slot = 4 * len(self.S2) * 2 * len(DIALECTS)
        G.append(("single-slot", n_slot))
        G.append(("joint-atoms", len(joint) ** 4 * 2 * (2 if tier != "quick" else 1)))
        self.shapes = self._shapes()
        G.append(("shapes", len(self.shapes) * 2 * len(DIALECTS)))
        self.numbers = list(NUMBERS) + (list(exponent_floats()) if tier != "quick" else list(exponent_floats())[::7])
        G.append(("numbers", len(self.numbers) * 2))
        self.times = timestamps()
        G.append(("timestamps", len(self.times) * 2))
        self.groups = []
        off = 0
        for name, n in G:
            self.groups.append((name, off, n))
            off += n
        self.total = off

    def _shapes(self):
        tv = [None, "", "x", "_none"]
        fv = [None, 0, 1.5, -2]
        out = []
        for nt in range(3):
            for nf in range(3):
                for tvals in itertools.product(tv, repeat=nt):
                    for fvals in itertools.product(fv, repeat=nf):
                        tags = {("k%d" % i): v for i, v in enumerate(tvals)}
                        fields = {("k%d" % i): v for i, v in enumerate(fvals)}  # same key names under tags and fields
                        out.append((tags, fields))
        return out

    def rule(self):
        return (
            "exhaustive: (i) every string of <=2 atoms (23 atoms incl. delimiters, quotes, CR, LF, NUL, reserved words and "
            "prefixes, non-ASCII, U+2028) in each single string slot; (ii) all 4-tuples of atoms over the four string slots "
            "jointly (10 atoms quick / 23 thorough, tag value also None); (iii) all point shapes with 0-2 tags x 0-2 fields "
            "over small value sets; (iv) numeric edge battery + every float64 exponent x sign x 4 mantissas (thorough; every "
            "7th element quick); (v) timestamp edges 1700-2240 x 4 microsecond values; x both prefix styles x 3 csv dialects. "
            "Non-trivial = the point contains at least one atom other than plain 'a'/'x' text or a non-integer / non-small number"
        )

    def universe_size(self):
        return self.total

    def shard(self, n, workers):
        per = 4000
        return [(i, min(n, i + per)) for i in range(0, n, per)]

    def coverage_extra(self, counters):
        return {"groups": [{"name": n, "size": s} for n, _, s in self.groups], "atoms": [repr(a) for a in ATOMS]}

    # ---- element construction -------------------------------------------------------------
    def element(self, gi):
        """-> (group, spec=(time, meas, tags, fields), compact, dialect index, trivial?)"""
        for name, off, n in self.groups:
            if off <= gi < off + n:
                i = gi - off
                break
        if name == "single-slot":
            nd = len(DIALECTS)
            d = i % nd
            i //= nd
            compact = bool(i % 2)
            i //= 2
            s = self.S2[i % len(self.S2)]
            slot = i // len(self.S2)
            meas, tags, fields = "m", {"k": "v"}, {"f": 1.5}
            if slot == 0:
                meas = s
            elif slot == 1:
                tags = {s: "v", "k2": "w"}
            elif slot == 2:
                tags = {"k": s, "k2": "w"}
            else:
                fields = {s: 1.5, "f2": 2}
            return name, (T0, meas, tags, fields), compact, d, s in ("a", "aa")
        if name == "joint-atoms":
            J = self.joint
            compact = bool(i % 2)
            i //= 2
            none_tv = False
            if self.tier != "quick":
                none_tv = bool(i % 2)
                i //= 2
            a = J[i % len(J)]
            i //= len(J)
            b = J[i % len(J)]
            i //= len(J)
            c = J[i % len(J)]
            i //= len(J)
            d_ = J[i % len(J)]
            return name, (T0, a, {b: (None if none_tv else c)}, {d_: 0.5}), compact, 0, False
        if name == "shapes":
            nd = len(DIALECTS)
            d = i % nd
            i //= nd
            compact = bool(i % 2)
            tags, fields = self.shapes[i // 2]
            return name, (T0, "m", dict(tags), dict(fields)), compact, d, False
        if name == "numbers":
            compact = bool(i % 2)
            v = self.numbers[i // 2]
            return name, (T0, "m", {"k": "v"}, {"f": v, "g": 1}), compact, 0, v in (1, 2, 7)
        compact = bool(i % 2)
        return name, (self.times[i // 2], "m", {"k": "v"}, {"f": 1}), compact, 0, False

    # ---- worker ---------------------------------------------------------------------------
    def roundtrip(self, specs, compact, dialect, rewrites=0):
        """Insert the points into a fresh CSV database, reopen, read back. Returns list of ref points or exception.

        With ``rewrites`` > 0 the rows are additionally carried through that many storage rewrites on the
        same database object (sentinel points are inserted and removed one by one), i.e. they are read and
        written again by the rewrite path before the file is reopened.
        """
        from tinyflux import Point, TagQuery, TinyFlux

        path = os.path.join(common.db_dir(), "c05.csv")
        if os.path.exists(path):
            os.unlink(path)
        kw = dict(DIALECTS[dialect][1])
        db = TinyFlux(path, auto_index=False, **kw)
        try:
            for (t, m, tags, fields) in specs:
                p = Point()
                p.time, p.measurement, p.tags, p.fields = t, m, dict(tags), dict(fields)
                db.insert(p, compact_key_prefixes=compact)
            for i in range(rewrites):
                sp = Point()
                sp.time, sp.measurement, sp.tags = T0, "sentinel-row", {"sentinel-id": str(i)}
                db.insert(sp)
            for i in range(rewrites):
                n = db.remove(TagQuery()["sentinel-id"] == str(i))
                if n != 1:
                    raise AssertionError(f"sentinel removal {i} removed {n} points")
        finally:
            db.close()
        db2 = TinyFlux(path, auto_index=False, **kw)
        try:
            return [refmodel.rp_of_point(p) for p in db2.all(sorted=False)]
        finally:
            db2.close()

    def run_range(self, lo, hi):
        out, c, smp = [], collections.Counter(), []
        batches = collections.defaultdict(list)
        for gi in range(lo, hi):
            name, spec, compact, d, trivial = self.element(gi)
            batches[(compact, d, 0)].append((gi, name, spec))
            if name in ("single-slot", "shapes"):
                # the same point once more, carried through two storage rewrites before the file is reopened
                batches[(compact, d, 2)].append((gi, name, spec))
                c["evaluations"] += 1
            c["evaluations"] += 1
            if not trivial:
                c["__distinct_nontrivial"] += 1
        for (compact, d, rewrites), items in batches.items():
            for k in range(0, len(items), 250):
                chunk = items[k : k + 250]
                specs = [s for _, _, s in chunk]
                ok = False
                try:
                    got = self.roundtrip(specs, compact, d, rewrites)
                    ok = len(got) == len(specs) and all(same_point(g, s) for g, s in zip(got, specs))
                except Exception:
                    ok = False
                c["batches"] += 1
                if ok:
                    continue
                for gi, name, spec in chunk:  # localise one by one
                    v = self.check_one(name, spec, compact, d, rewrites)
                    c["single_roundtrips"] += 1
                    for x in v:
                        x["shard"] = (lo, hi)  # the calls made before this one in the same process (see recheck)
                    out += v
            if len(smp) < 2 and items:
                smp.append({"group": items[0][1], "point": repr(items[len(items) // 2][2]), "compact": compact,
                            "dialect": DIALECTS[d][0], "storage_rewrites_before_reopen": rewrites})
        return out, c, smp

    def check_one(self, name, spec, compact, d, rewrites=0):
        via = "|after-rewrites" if rewrites else ""
        try:
            got = self.roundtrip([spec], compact, d, rewrites)
        except Exception as e:  # noqa
            return [viol("roundtrip", f"C05|raises:{type(e).__name__}|{classify(spec, None)}{via}", observed=f"{type(e).__name__}: {e}"[:200],
                         expected=spec, kind="input") | {"input": (spec, compact, d, rewrites)}]
        if len(got) == 1 and same_point(got[0], spec):
            return []
        cls = classify(spec, got[0] if len(got) == 1 else None)
        if cls == "slot=tagvalue|value=is-_none":
            via = ""  # the known sentinel collision is the same finding on either path
        return [viol("roundtrip", f"C05|{cls}{via}", observed=got, expected=spec,
                     kind="input") | {"input": (spec, compact, d, rewrites)}]

    def recheck(self, rec):
        common.import_tinyflux()
        spec, compact, d = rec["input"][:3]
        rewrites = rec["input"][3] if len(rec["input"]) > 3 else 0
        spec = (spec[0], spec[1], dict(spec[2]), dict(spec[3]))
        out = self.check_one("replay", spec, compact, d, rewrites)
        if not out and rec.get("shard"):
            # not reproducible in isolation: the codec's answer depended on what was encoded before in the same
            # process (shared state). Re-run the recorded shard in order - deterministic from a fresh process.
            lo, hi = rec["shard"]
            vs, _, _ = self.run_range(lo, hi)
            out = [v for v in vs if v["signature"] == rec["signature"]][:1]
        return out


def _sign(x):
    """Sign including that of -0.0; exact for integers too large for a float."""
    if isinstance(x, int):
        return 1.0 if x >= 0 else -1.0
    return math.copysign(1, x)

def same_point(got, spec):
    t, m, tags, fields = spec
    if got[0] != t or got[0].tzinfo is None or got[0].utcoffset() != dt.timedelta(0):
        return False
    if got[1] != m or got[2] != tags:
        return False
    if list(got[3].keys()) != list(fields.keys()) and set(got[3]) != set(fields):
        return False
    for k, v in fields.items():
        g = got[3].get(k, "missing")
        if v is None or g is None or isinstance(g, str):
            if g is not v:
                return False
        elif g != v or _sign(g) != _sign(v):
            return False
    return True


def _atom_class(s):
    if s is None:
        return "None"
    if s == "":
        return "empty"
    if s == "_none":
        return "is-_none"
    for a in ("_none", "\0", "\r", "\n"):
        if a in s:
            return {"_none": "contains-_none", "\0": "contains-NUL", "\r": "contains-CR", "\n": "contains-LF"}[a]
    for a in ("_tag_", "_field_", "t_", "f_"):
        if s.startswith(a):
            return "prefix-like"
    if s[:1] in ("t", "f", "_"):
        return "starts-" + s[:1]
    return "other"


def classify(spec, got):
    """Which slot was damaged and by what kind of value (signature of a codec finding)."""
    t, m, tags, fields = spec
    if got is None:
        parts = [f"meas={_atom_class(m)}"]
        parts += sorted({f"tagkey={_atom_class(k)}" for k in tags} | {f"tagval={_atom_class(v)}" for v in tags.values()})
        parts += sorted({f"fieldkey={_atom_class(k)}" for k in fields})
        return "undecodable|" + ",".join(p for p in parts if not p.endswith("=other"))
    if got[0] != t or got[0].tzinfo is None:
        return "slot=time"
    if got[1] != m:
        return f"slot=measurement|value={_atom_class(m)}"
    sentinel_only = False
    if got[2] != tags:
        if set(got[2]) != set(tags):
            bad = sorted({_atom_class(k) for k in set(tags) ^ set(got[2])})
            return f"slot=tagkey|value={'/'.join(bad)}"
        wrong = {k: v for k, v in tags.items() if got[2].get(k) != v}
        if all(v == "_none" and got[2][k] is None for k, v in wrong.items()):
            sentinel_only = True  # look at the other slots first, so this one does not mask them
        else:
            bad = sorted({_atom_class(v) for v in wrong.values()})
            return f"slot=tagvalue|value={'/'.join(bad)}"
    if set(got[3]) != set(fields):
        bad = sorted({_atom_class(k) for k in set(fields) ^ set(got[3])})
        return f"slot=fieldkey|value={'/'.join(bad)}"
    cls = set()
    for k, v in fields.items():
        g = got[3][k]
        if g != v or (isinstance(v, (int, float)) and isinstance(g, (int, float)) and _sign(g) != _sign(v)):
            if isinstance(v, int) and abs(v) > 2**53:
                cls.add("int-beyond-2^53")
            elif isinstance(v, float):
                cls.add("float")
            else:
                cls.add(type(v).__name__)
    if not cls and sentinel_only:
        return "slot=tagvalue|value=is-_none"
    return f"slot=fieldvalue|class={'/'.join(sorted(cls))}"


def make(tier, seed):
    return C05(tier, seed)
