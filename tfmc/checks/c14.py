"""C14 - no API path lets an invalid value into the database (DESIGN 4, C14).

Exhaustive matrix: entry point x slot x wrongly-typed value x {static, callable} x selector
(index-assisted / scan branch) x configuration x pre-state size.
"""

import collections
import datetime as dt
import itertools

from .. import alphabet, common, ladder, refmodel, univ, world as W
from .base import viol, CFG4

WRONG = {
    "int": lambda: 1,
    "float": lambda: 1.5,
    "bool": lambda: True,
    "bytes": lambda: b"x",
    "None": lambda: None,
    "list": lambda: [1],
    "dict": lambda: {"k": 1},
    "str": lambda: "str",
    "tuple": lambda: (1,),
    "object": lambda: object(),
}
# which wrong values make sense per slot (hashable ones only for keys)
SLOT_WRONG = {
    "time": ["int", "float", "bool", "bytes", "str", "list", "dict", "object"],
    "measurement": ["int", "float", "bool", "bytes", "list", "dict", "object"],
    "tagkey": ["int", "float", "bool", "bytes", "None", "tuple"],
    "tagvalue": ["int", "float", "bool", "bytes", "list", "dict", "object"],
    "fieldkey": ["int", "float", "bool", "bytes", "None", "tuple"],
    "fieldvalue": ["bool", "str", "bytes", "list", "dict", "object"],
    # a wrong key whose value is None (a legal value that validators like to skip early)
    "tagkey-with-none-value": ["int", "float", "bool", "bytes", "None", "tuple"],
    "fieldkey-with-none-value": ["int", "float", "bool", "bytes", "None", "tuple"],
    "tags-container": ["int", "str", "list", "bool"],
    "fields-container": ["int", "str", "list", "bool"],
}
MAPPING_SLOTS = ("tagkey", "tagvalue", "fieldkey", "fieldvalue", "tagkey-with-none-value", "fieldkey-with-none-value")
ENTRIES = ["Point()", "setattr", "insert-measurement-arg", "insert_multiple-measurement-arg", "handle-nonstr-name.insert",
           "insert_multiple-1100-points-measurement-arg", "handle-nonstr-name.insert_multiple-1100-points",
           "update", "update_all", "h.update", "h.update_all"]


def valid_types(points):
    """List of reasons why a returned point is not well-typed (empty = fine)."""
    bad = []
    for p in points:
        if not isinstance(p.time, dt.datetime):
            bad.append(("time", repr(p.time)))
        if not isinstance(p.measurement, str):
            bad.append(("measurement", repr(p.measurement)))
        if not isinstance(p.tags, dict) or not isinstance(p.fields, dict):
            bad.append(("container", repr((p.tags, p.fields))))
            continue
        for k, v in p.tags.items():
            if not isinstance(k, str):
                bad.append(("tagkey", repr(k)))
            if not (v is None or isinstance(v, str)):
                bad.append(("tagvalue", repr(v)))
        for k, v in p.fields.items():
            if not isinstance(k, str):
                bad.append(("fieldkey", repr(k)))
            if not (v is None or (isinstance(v, (int, float)) and not isinstance(v, bool))):
                bad.append(("fieldvalue", repr(v)))
    return bad


class C14(univ.UnivCheck):
    prop = "C14"
    level = "exploration"

    def __init__(self, tier, seed):
        super().__init__(tier, seed)
        self.alpha = ladder.install(alphabet.Alphabet(seed))
        self.cfgs = [dict(c) for c in CFG4]
        cases = []
        for entry in ENTRIES:
            for slot, wids in SLOT_WRONG.items():
                for wid in wids:
                    if entry in ("Point()", "setattr"):
                        cases.append((entry, slot, wid, False, None, 0, 0))
                        continue
                    if entry in ("insert-measurement-arg", "insert_multiple-measurement-arg", "handle-nonstr-name.insert",
                                 "insert_multiple-1100-points-measurement-arg", "handle-nonstr-name.insert_multiple-1100-points"):
                        if "1100" in entry and wid not in ("int", "bytes", "tuple"):
                            continue
                        if slot != "measurement" or wid == "None" or (entry.startswith("handle") and wid in ("list", "dict")):
                            continue
                        for ci in range(4):
                            for npre in ((0, 1) if "1100" not in entry else (0,)):
                                cases.append((entry, slot, wid, False, None, ci, npre))
                        continue
                    for via_callable in (False, True, "inplace"):
                        if via_callable and slot.endswith("container") and wid == "bool":
                            continue
                        if via_callable == "inplace" and slot not in MAPPING_SLOTS:
                            continue
                        sels = ("all", "partial") if entry in ("update", "h.update") else (None,)
                        for sel in sels:
                            for ci in range(4):
                                for npre in (0, 1, 2, 3):
                                    cases.append((entry, slot, wid, via_callable, sel, ci, npre))
        # unset_* arguments
        for entry in ("update", "update_all"):
            for arg in ("unset_tags", "unset_fields"):
                for wid in ("int", "list", "bool", "float"):
                    for ci in range(4):
                        cases.append((entry, arg, wid, False, "all" if entry == "update" else None, ci, 2))
        # the same matrix once more for the mapping slots, with the offending item hidden among 20 valid entries
        wide = [c + ("wide",) for c in cases if c[1] in MAPPING_SLOTS and c[0] not in ("Point()", "setattr")]
        self.cases = cases + wide

    def rule(self):
        return (
            "matrix of entry points {Point(), attribute assignment, insert(measurement=), update, update_all, handle.update, "
            "handle.update_all} x slot {time, measurement, tag key, tag value, field key, field value, tags/fields container, "
            "unset_*} x wrongly-typed values x {static, produced by a callable} x selector {matches all (scan branch), matches "
            "part (index-assisted branch)} x 4 configurations x pre-state sizes 0-3; oracle: ValueError/TypeError raised where "
            "the value is supplied, contents unchanged, every value returned by all() (and by a reopened CSV copy) well-typed"
        )

    def universe_size(self):
        return len(self.cases)

    def shard(self, n, workers):
        per = max(1, n // (workers * 4))
        return [(i, min(n, i + per)) for i in range(0, n, per)]

    def coverage_extra(self, counters):
        return {"entries": ENTRIES, "slots": list(SLOT_WRONG), "wrong_values": list(WRONG)}

    def worker_init(self):
        common.import_tinyflux()
        common.install_clock(0)

    # ------------------------------------------------------------------
    def _kwargs(self, slot, wid, via_callable):
        """Update keyword arguments carrying the wrong value in ``slot``."""
        v = WRONG[wid]()
        if slot == "time":
            val = v
            return {"time": (lambda old: val) if via_callable else val}
        if slot == "measurement":
            val = v
            return {"measurement": (lambda old: val) if via_callable else val}
        if slot in MAPPING_SLOTS:
            d = {"tagkey": {v: "v"}, "tagvalue": {"a": v}, "fieldkey": {v: 1}, "fieldvalue": {"v": v},
                 "tagkey-with-none-value": {v: None}, "fieldkey-with-none-value": {v: None}}[slot]
            if self.wide:
                pad = {("k%02d" % i): ("s" if slot.startswith("tag") else i) for i in range(20)}
                d = {**dict(list(pad.items())[:10]), **d, **dict(list(pad.items())[10:])}
            arg = "tags" if slot.startswith("tag") else "fields"
            if via_callable == "inplace":
                def mutate(old):
                    old.update(d)  # edits the mapping it was handed and returns that same object
                    return old

                return {arg: mutate}
            return {arg: (lambda old: d) if via_callable else d}
        if slot == "tags-container":
            return {"tags": (lambda old: v) if via_callable else v}
        if slot == "fields-container":
            return {"fields": (lambda old: v) if via_callable else v}
        if slot in ("unset_tags", "unset_fields"):
            return {slot: v}
        raise ValueError(slot)

    wide = False

    def run_case(self, case):
        from tinyflux import Point, TagQuery

        self.wide = len(case) > 7 and case[7] == "wide"
        entry, slot, wid, via_callable, sel, ci, npre = case[:7]
        A = self.alpha
        sig0 = f"C14|{entry}|slot={slot}|{'callable-inplace' if via_callable == 'inplace' else ('callable' if via_callable else 'static')}"
        if entry in ("Point()", "setattr"):
            v = WRONG[wid]()
            try:
                if entry == "Point()":
                    kw = {
                        "time": {"time": v}, "measurement": {"measurement": v}, "tagkey": {"tags": {v: "v"}},
                        "tagvalue": {"tags": {"a": v}}, "fieldkey": {"fields": {v: 1}}, "fieldvalue": {"fields": {"v": v}},
                        "tags-container": {"tags": v}, "fields-container": {"fields": v},
                        "tagkey-with-none-value": {"tags": {v: None}}, "fieldkey-with-none-value": {"fields": {v: None}},
                    }[slot]
                    p = Point(**kw)
                    if slot in MAPPING_SLOTS:
                        # ... and once more with the offending item among 20 valid entries
                        arg = "tags" if slot.startswith("tag") else "fields"
                        pad = {("k%02d" % i): ("s" if arg == "tags" else i) for i in range(20)}
                        Point(**{arg: {**pad, **kw[arg]}})
                else:
                    p = Point()
                    if slot == "time":
                        p.time = v
                    elif slot == "measurement":
                        p.measurement = v
                    elif slot == "tagkey":
                        p.tags = {v: "v"}
                    elif slot == "tagvalue":
                        p.tags = {"a": v}
                    elif slot == "fieldkey":
                        p.fields = {v: 1}
                    elif slot == "fieldvalue":
                        p.fields = {"v": v}
                    elif slot == "tagkey-with-none-value":
                        p.tags = {v: None}
                    elif slot == "fieldkey-with-none-value":
                        p.fields = {v: None}
                    elif slot == "tags-container":
                        p.tags = v
                    else:
                        p.fields = v
                # (the default time of a Point is the real clock: left out so that two replays observe the same thing)
                seen = repr((p.time if slot == "time" else "<time>", p.measurement, p.tags, p.fields))
                return [viol("rejected", sig0 + "|not-rejected", observed=seen, expected="ValueError/TypeError", kind="input") | {"input": case}]
            except (ValueError, TypeError):
                return []
            except Exception as e:  # noqa
                return [viol("rejected", sig0 + "|wrong-exception-type", observed=type(e).__name__, expected="ValueError/TypeError", kind="input") | {"input": case}]
        cfg = self.cfgs[ci]
        w = W.World(cfg, A)
        names = ["P0", "P1", "P3"][:npre]
        for n in names:
            w.db.insert(A.mk_point(n))
        pre = [A.ref_point(n) for n in names]
        if cfg["auto_index"] is False and npre == 3:
            w.db.reindex()  # manual configuration with a valid index: index-assisted branch without auto_index
        out = []
        raised = None
        try:
            if entry == "insert-measurement-arg":
                w.db.insert(A.mk_point("P2"), measurement=WRONG[wid]())
            elif entry == "insert_multiple-measurement-arg":
                w.db.insert_multiple([A.mk_point("P2"), A.mk_point("P4")], measurement=WRONG[wid]())
            elif entry == "insert_multiple-1100-points-measurement-arg":
                w.db.insert_multiple([A.mk_point("G%d" % i) for i in range(1100)], measurement=WRONG[wid]())
            elif entry == "handle-nonstr-name.insert_multiple-1100-points":
                w.db.measurement(WRONG[wid]()).insert_multiple([A.mk_point("G%d" % i) for i in range(1100)])
            elif entry == "handle-nonstr-name.insert":
                w.db.measurement(WRONG[wid]()).insert(A.mk_point("P2"))
            else:
                kw = self._kwargs(slot, wid, via_callable)
                q = TagQuery().noop() if sel == "all" else (TagQuery().a == A.x)
                if entry == "update":
                    w.db.update(q, **kw)
                elif entry == "update_all":
                    w.db.update_all(**kw)
                elif entry == "h.update":
                    w.db.measurement("m").update(q, **kw)
                else:
                    w.db.measurement("m").update_all(**kw)
        except (ValueError, TypeError) as e:
            raised = "ok"
        except Exception as e:  # noqa
            raised = type(e).__name__
        # was the wrong value actually supplied to the database? (a callable only runs on selected points)
        supplied = True
        if via_callable:
            nsel = npre if sel != "partial" else sum(1 for rp in pre if rp[2].get("a") == A.x)
            supplied = nsel > 0
        if supplied and raised is None:
            out.append(viol("rejected", sig0 + "|not-rejected", observed="no exception", expected="ValueError/TypeError", kind="input") | {"input": case})
        elif raised not in (None, "ok"):
            out.append(viol("rejected", sig0 + "|wrong-exception-type", observed=raised, expected="ValueError/TypeError", kind="input") | {"input": case})
        try:
            pts = w.db.all(sorted=False)
            bad = valid_types(pts)
            post = [refmodel.rp_of_point(p) for p in pts]
        except Exception as e:  # noqa
            bad, post = [("unreadable", f"{type(e).__name__}: {e}"[:100])], None
        if bad:
            out.append(viol("stored-types", sig0 + f"|stored-invalid|{cfg['storage']}", observed=bad[:3], expected="well-typed values only", kind="input") | {"input": case})
        elif post != pre:
            out.append(viol("unchanged", sig0 + f"|contents-changed|{cfg['storage']}", observed=post, expected=pre, kind="input") | {"input": case})
        if cfg["storage"] == "csv":
            from tinyflux import TinyFlux

            w.db.close()
            try:
                db2 = TinyFlux(w.path, auto_index=False)
                bad2 = valid_types(db2.all(sorted=False))
                post2 = [refmodel.rp_of_point(p) for p in db2.all(sorted=False)]
                db2.close()
                if bad2 or post2 != pre:
                    out.append(viol("reopened", sig0 + "|reopened-copy-differs", observed=bad2 or post2, expected=pre, kind="input") | {"input": case})
            except Exception as e:  # noqa
                out.append(viol("reopened", sig0 + "|reopened-copy-unreadable", observed=f"{type(e).__name__}: {e}"[:100], expected=pre, kind="input") | {"input": case})
        else:
            w.close()
        return out

    def run_range(self, lo, hi):
        out, c, smp = [], collections.Counter(), []
        for case in self.cases[lo:hi]:
            c["evaluations"] += 1
            c["__distinct_nontrivial"] += 1
            v = self.run_case(case)
            c["rejected_cleanly" if not v else "with_violation"] += 1
            out += v
            if len(smp) < 1 and case[0] == "update" and case[3]:
                smp.append({"case": repr(case)})
        return out, c, smp

    def recheck(self, rec):
        self.worker_init()
        return self.run_case(tuple(rec["input"]))


def make(tier, seed):
    return C14(tier, seed)
