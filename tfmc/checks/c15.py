"""C15 - reads and no-op writes change nothing and leave nothing behind (DESIGN 4, C15)."""

from .. import common, ladder, qast, refmodel, world as W
from .base import E1Check, viol
from .c01 import std_ops
from .c11 import wide_fault_ops

FORBIDDEN = {
    # access mode -> operation classes that must raise OSError
    "r": ("insert", "remove", "update", "remove_all", "drop"),
    "a": ("read", "remove", "update", "remove_all", "drop"),
    "a+": ("remove", "update", "remove_all", "drop"),
    "w": ("read", "remove", "update", "drop"),
    "w+": (),
    "r+": (),
}
CLASSES = ("insert", "remove", "update", "remove_all", "drop", "read")


class C15(E1Check):
    prop = "C15"

    def __init__(self, tier, seed):
        super().__init__(tier, seed)
        A = self.alpha
        lvl = "quick" if tier == "quick" else "thorough"
        atoms = A.atoms(lvl)
        P = []
        qs = atoms[:: 3 if tier == "quick" else 1] + [("not", ("cmp", "fields", ("v",), "==", 1)), ("cmp", "fields", ("v", ("map", "plus_one")), "==", 2)]
        for q in qs:
            for m in (None, "m"):
                for k in ("count", "contains", "get", "search", "search_unsorted"):
                    P.append((k, q, m))
            P.append(("select", ("time", "tags.a"), q, None))
        for m in (None, "m", "zz"):
            margs = () if m is None else (m,)
            P += [("getter", "get_tag_keys") + margs, ("getter", "get_field_keys") + margs, ("getter", "get_timestamps") + margs]
            P += [("getter", "get_tag_values", ("a",)) + margs, ("getter", "get_field_values", "v") + margs]
        P += [("getter", "get_measurements"), ("getter", "iter"), ("getter", "all", True), ("getter", "all", False), ("len",),
              ("getter", "h.iter", "m"), ("getter", "h.len", "n"), ("reindex",)]
        self.read_probes = P
        # writes that the reference says change nothing in *some* states (decided per state)
        sels = [("cmp", "tags", ("a",), "==", "no-such-value"), ("cmp", "time", (), ">", A.thigh), ("cmp", "tags", ("a",), "==", A.x),
                ("not", ("noop", "tags")), ("cmp", "measurement", (), "==", "n")]
        Wp = []
        for s in sels:
            Wp.append(("remove", s, None, "db"))
            Wp.append(("remove", s, "zz", "db"))
            Wp.append(("update", s, W.mkspec(tags={"a": A.x}), None, "db"))
            Wp.append(("update", s, W.mkspec(unset_tags="nokey"), None, "db"))
            Wp.append(("update", s, W.mkspec(fields=("fn", "f_w9")), "zz", "db"))
        Wp += [("drop", "zz"), ("h_remove_all", "zz"), ("update_all", W.mkspec(unset_fields=["nokey"]), "db"),
               ("update_all", W.mkspec(tags=("fn", "tags_copy_b"), unset_tags="b"), "h:zz")]
        self.write_probes = Wp
        self.faults = wide_fault_ops(A, tier)
        self.mode_probes = [("mode_probe", mode, cls) for mode in ("r", "a", "a+", "w", "w+", "r+") for cls in CLASSES]
        self.probe_set = set(P) | set(Wp) | set(self.faults) | set(self.mode_probes)
        # what is a probe must not depend on which configuration a worker happens to see first (replay fidelity)
        self.probe_set -= set(self._base({"storage": "csv"}))

    def rule(self):
        return (
            "BFS over histories of the standard alphabet on CSV (auto_index on/off); at every state every read, getter, "
            "iteration, reindex, every removal/update that the reference says selects or changes nothing, every faulting call "
            "and - on a replica reopened with access_mode r, a, a+, w, w+, r+ - one operation of every class is executed; "
            "oracle: database file bytes identical for reads/no-ops and for operations the mode forbids (which must raise "
            "OSError), and the listings of the temp directory and of the database directory identical before/after EVERY "
            "operation of the alphabet, returned or raised"
        )

    def configs(self):
        base = [
            {"name": "csv/auto", "storage": "csv", "auto_index": True},
            {"name": "csv/manual", "storage": "csv", "auto_index": False},
            # the database path is a symbolic link into another directory (temp files belong next to the link or the target,
            # and must be gone afterwards either way)
            {"name": "csv/auto/symlinked-path", "storage": "csv", "auto_index": True, "symlink": True, "D": 2 if self.tier == "quick" else 3},
        ]
        # ladder: a file beyond 64 KiB (1300 rows) for the access-mode probes; smaller rungs at depth 2
        lad = ladder.configs(self.ladder_sizes()[:1], storages=("csv",), autos=(True, False), D=2)
        lad += ladder.configs(self.ladder_sizes()[1:2], storages=("csv",), autos=(True, False), D=2 if self.tier != "quick" else 1, big_depth=1)
        # a database opened with "w+" and filled beyond 64 KiB in the same session: reads must not touch the file
        for c in ladder.configs((), storages=("csv",), autos=(True, False), D=1, big_depth=1):
            d = dict(c)
            d.update(name=c["name"] + "/mode=w+", csv={"access_mode": "w+"})
            lad.append(d)
        return base + lad

    def ladder_op_list(self, cfg):
        if cfg.get("csv", {}).get("access_mode") == "w+":
            # no reopen-style probes here: opening with w+ truncates by definition
            reads = [("getter", "all", False), ("getter", "iter"), ("len",), ("reindex",), ("read_storm",),
                     ("count", ("cmp", "fields", ("v",), ">=", 3), None), ("get", ("cmp", "tags", ("i",), "==", "0"), None),
                     ("getter", "get_timestamps", "big"), ("remove", ("cmp", "tags", ("i",), "==", "no-such"), None, "db"),
                     ("update", ("cmp", "tags", ("i",), "==", "7"), W.mkspec(unset_tags="nokey"), None, "db")]
            self._lp[cfg["name"]] = set(reads[1:])
            return reads
        edges = [("read_storm",), ("count", ("cmp", "fields", ("v",), ">=", 3), None), ("getter", "get_timestamps", "big")]
        probes = [p for p in self.write_probes] + self.mode_probes + [("getter", "all", False), ("getter", "iter"), ("len",), ("reindex",),
                  ("count", ("cmp", "tags", ("i",), "==", "no-such"), None), ("get", ("cmp", "tags", ("i",), "==", "0"), None),
                  ("remove", ("cmp", "tags", ("i",), "==", "no-such"), None, "db"),
                  ("update", ("cmp", "tags", ("i",), "==", "no-such"), W.mkspec(tags={"a": "b"}), None, "db"),
                  ("update", ("cmp", "tags", ("i",), "==", "7"), W.mkspec(unset_tags="nokey"), None, "db")]
        have = set(edges)
        self._lp[cfg["name"]] = {p for p in probes if p not in have}
        return edges + [p for p in probes if p not in have]

    def bounds(self):
        return {"N": 3, "D": 3} if self.tier == "quick" else {"N": 4, "D": 4, "max_states": 30000}

    def budget(self):
        return 600 if self.tier == "quick" else 1200

    def _base(self, cfg):
        base = std_ops(self.alpha, cfg, self.tier)
        base.append(("insert", "P1", None, True, "db"))  # compact key prefixes: a needless rewrite would change these bytes
        return base

    def op_list(self, cfg):
        base = self._base(cfg)
        return base + [p for p in self.read_probes + self.write_probes + self.faults + self.mode_probes if p in self.probe_set]

    def is_std_probe(self, op):
        return op in self.probe_set

    def enabled(self, op, contents, cfg, history):
        if not super().enabled(op, contents, cfg, history):
            return False
        if op[0] == "bad_insert_multiple" and len(contents) + len(op[1]) > cfg.get("N", self.bounds()["N"]):
            return False
        if op[0] in ("update_raise", "update_badret", "query_raise"):
            return W.fault_enabled(op, contents) and W.ref_apply(op, contents, self.alpha)[1] == ("exc",)
        return True

    def coverage_extra(self, res):
        return {"probes_per_state": len(self.probe_set), "mode_probes": len(self.mode_probes)}

    # ---- access-mode probes run outside World.apply -----------------------------------------
    def apply(self, world, op, T):
        if op[0] != "mode_probe":
            return world.apply(op)
        from tinyflux import TagQuery, TinyFlux

        _, mode, cls = op
        A = self.alpha
        world.db.close()
        world.handles = {}
        readable = mode in ("r", "r+", "w+", "a+")
        db = TinyFlux(world.path, auto_index=world.cfg["auto_index"] and readable, access_mode=mode)
        world.db = db
        bytes0 = world.file_bytes()
        listing0 = (world.tmp_listing(), world.db_listing())
        try:
            if cls == "insert":
                r = db.insert(A.mk_point("P5"))
            elif cls == "remove":
                r = db.remove(TagQuery().a == A.x)
            elif cls == "update":
                r = db.update(TagQuery().noop(), tags={"b": A.q})
            elif cls == "remove_all":
                r = db.remove_all()
            elif cls == "drop":
                r = db.drop_measurement("m")
            else:
                r = len(db.all())
            out = ("ret", r)
        except BaseException as e:  # noqa
            out = ("exc", type(e).__name__, isinstance(e, OSError))
        T.extra = (bytes0, world.file_bytes(), listing0, (world.tmp_listing(), world.db_listing()))
        # leave the world in a state the generic post-processing can read
        try:
            db.close()
        except Exception:
            pass
        world.db = TinyFlux(world.path, auto_index=False)
        return out

    # -----------------------------------------------------------------------------------
    def transition(self, T, counters):
        out = []
        op, k = T.op, T.op[0]
        raised = T.outcome[0] == "exc"
        if k == "mode_probe":
            _, mode, cls = op
            bytes0, bytes1, l0, l1 = T.extra
            counters["mode_probes"] += 1
            if cls in FORBIDDEN[mode]:
                counters["forbidden_mode_probes"] += 1
                if not raised:
                    out.append(viol("forbidden-raises", f"C15|mode={mode}|{cls}|did-not-raise", observed=T.outcome, expected="OSError"))
                elif not T.outcome[2]:
                    out.append(viol("forbidden-raises", f"C15|mode={mode}|{cls}|raised-non-OSError", observed=T.outcome, expected="OSError"))
                if bytes0 != bytes1:
                    out.append(viol("bytes-unchanged", f"C15|mode={mode}|{cls}|forbidden-op-changed-file", observed=bytes1, expected=bytes0))
            elif cls == "read" and bytes0 != bytes1:
                out.append(viol("bytes-unchanged", f"C15|mode={mode}|read|changed-file", observed=bytes1, expected=bytes0))
            if l0 != l1:
                out.append(viol("nothing-left-behind", f"C15|mode={mode}|{cls}|{'raised' if raised else 'returned'}|files-left-behind", observed=l1, expected=l0))
            return out
        # (a) nothing left behind, for every operation
        counters["listing_checks"] += 1
        if (T.pre_tmp, T.pre_dbdir) != (T.post_tmp, T.post_dbdir):
            where = "tempdir" if T.pre_tmp != T.post_tmp else "dbdir"
            cls = "fault" if op in self.faults else ("read" if k in W.READ_OPS or k in ("reindex", "handle") else "write")
            out.append(viol("nothing-left-behind", f"C15|{cls}:{k}|{'raised' if raised else 'returned'}|files-left-in-{where}",
                            observed=(T.post_tmp, T.post_dbdir), expected=(T.pre_tmp, T.pre_dbdir)))
        # (b) bytes unchanged for reads and for writes that select / change nothing
        noop = False
        if k in W.READ_OPS or k in ("reindex", "handle"):
            noop = True
            counters["read_ops_checked"] += 1
        elif op in self.faults and k != "bad_insert_multiple":
            noop = True
        elif k in ("remove", "drop", "h_remove_all", "update", "update_all"):
            exp, exp_out = W.ref_apply(op, T.pre, T.alpha)
            if exp_out == ("ret", 0):
                noop = True
                counters["noop_writes_checked"] += 1
        if noop and T.pre_bytes != T.post_bytes:
            out.append(viol("bytes-unchanged", f"C15|{k}|{'raised' if raised else 'returned'}|file-bytes-changed", observed=T.post_bytes, expected=T.pre_bytes))
        return out


def make(tier, seed):
    return C15(tier, seed)
