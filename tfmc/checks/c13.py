"""C13 - an I/O error during an operation is reported and corrupts nothing (DESIGN 4, C13).

For every operation of every explored state the raw-I/O seam records the steps; then, for every
step k (before the call takes effect; for fsync / close / effective flush also after it took
effect) the history is replayed on a fresh database and an OSError is injected at that step.
Oracle: (1) the API call raises and the injected error is the exception or in its cause/context
chain; (2) for every continuation of a fixed menu (reads served by the index and by scanning,
a further insert, close+reopen) every read either raises or agrees with the object's own storage
at that moment; (3) after close the file decodes to the old or the new contents (plus the
continuation's insert iff it succeeded).  One injected fault per history.
"""

import errno
import os

from .. import common, qast, refmodel, world as W
from ..ioseam import SEAM, Plan
from .base import E1Check, viol
from .c12 import crash_ops, recover

AFTER_KINDS = ("fsync", "close", "flush", "copy-close")
SKIP_BEFORE = ("flush",)  # a flush that pushed bytes is only offered as an after-effect error (DESIGN 3.3)


def chain_has(exc, target):
    seen = set()
    while exc is not None and id(exc) not in seen:
        if exc is target:
            return True
        seen.add(id(exc))
        exc = exc.__cause__ or exc.__context__
    return False


class C13(E1Check):
    prop = "C13"
    level = "fault_enumeration"
    engine = "iofault"

    assumptions = E1Check.assumptions + [
        "fault model: one raw I/O call per history fails with OSError (ENOSPC / EIO) before taking effect; fsync, close and an "
        "effective text-layer flush may also fail after taking effect; no short writes, no power loss",
    ]

    def __init__(self, tier, seed):
        super().__init__(tier, seed)
        A = self.alpha
        c_count = ("count", ("cmp", "time", (), ">=", A.tlow), None)
        c_search = ("search_unsorted", ("cmp", "tags", ("a",), "==", A.x), None)
        c_all = ("getter", "all", False)
        c_len = ("len",)
        c_ins = ("insert", "P5", None, False, "db")
        c_reopen = ("reopen",)
        singles = [c_count, c_search, c_all, c_len, c_ins, c_reopen]
        self.menu = [(c,) for c in singles] + [(a, b) for a in (c_ins, c_count) for b in singles]
        if tier != "quick":
            self.menu += [(a, b) for a in (c_search, c_all, c_len, c_reopen) for b in singles]

    def rule(self):
        return (
            "all (state, operation) pairs of a BFS of depth<=D over the crash alphabet (CSV, auto_index on/off, plus a "
            "flush_on_insert=False configuration in which rows reach the file at a later seek or at close); for every recorded raw-I/O step k of the operation an OSError is injected before the step (after it for "
            "fsync/close/effective flush as well), followed by every continuation of the menu (6 single operations and pairs "
            "starting with an insert or an index-served count; thorough: all pairs). distinct_nontrivial = injected faults that "
            "hit a step which mutates a file (write, truncate, copy, replace, unlink, close)"
        )

    def configs(self):
        nb = 110 if self.tier == "quick" else 1100   # beyond batch sizes of 100 / 1000
        bulk = {"name": f"csv/auto/bulk-insert-{nb}", "storage": "csv", "auto_index": True, "N": nb + 100, "D": 1, "ladder": 1, "bulk": nb,
                "init": (("insert", "P0", None, False, "db"),)}
        # rows stay in Python's buffer until a later seek / close: an error in close() must not lose them for good
        buffered = {"name": "csv/auto/flush_on_insert=False", "storage": "csv", "auto_index": True, "csv": {"flush_on_insert": False},
                    "D": 2 if self.tier == "quick" else 3}
        return [
            {"name": "csv/auto", "storage": "csv", "auto_index": True},
            {"name": "csv/manual", "storage": "csv", "auto_index": False},
            buffered,
            {"name": "csv/auto/symlinked-path", "storage": "csv", "auto_index": True, "symlink": True, "D": 2},
        ] + self.ladder_cfgs() + [bulk]

    def ladder_cfgs(self):
        from .. import ladder

        out = []
        for c in ladder.configs((), storages=("csv",), autos=(True,), D=1, big_depth=1):
            d = dict(c)
            # an out-of-order insert on top of 1300 rows leaves the index invalid: the next read re-indexes the whole file
            d.update(name=c["name"] + "/invalid-index", init=c["init"] + (("insert", "P0", None, False, "db"),))
            out.append(d)
        return out

    def ladder_op_list(self, cfg):
        A = self.alpha
        if cfg.get("bulk"):
            return [("insert_multiple", tuple("H%d" % i for i in range(cfg["bulk"])), None, False, "db")]
        return [("count", ("cmp", "tags", ("i",), "==", "5"), None), ("get", ("cmp", "tags", ("i",), "==", "1299"), None),
                ("insert", "P5", None, False, "db")]

    def bounds(self):
        return {"N": 4, "D": 3} if self.tier == "quick" else {"N": 5, "D": 4, "max_states": 20000}

    def budget(self):
        return 900 if self.tier == "quick" else 1200

    def worker_init(self):
        super().worker_init()
        SEAM.install()

    def op_list(self, cfg):
        return crash_ops(self.alpha, self.tier)

    def apply(self, world, op, T):
        plan = SEAM.begin(Plan(watch=world.path))
        try:
            return world.apply(op)
        finally:
            SEAM.end()
            T.extra = plan

    # -----------------------------------------------------------------------------------
    def _faulted_world(self, T, k, when, err):
        """Replay the history and perform the operation with the fault armed. -> (world, plan, exception|None, value)"""
        w = W.World.build(T.cfg, T.alpha, T.history)
        plan = SEAM.begin(Plan(watch=w.path, inject=(k, when, err)))
        exc, val = None, None
        try:
            val = w._do(T.op)
        except Exception as e:  # noqa
            exc = e
        finally:
            plan.armed = False
            SEAM.end()
        return w, plan, exc, val

    def transition(self, T, counters):
        out = []
        rec = T.extra
        if rec is None or T.outcome[0] == "exc" or T.post is None:
            return out
        k_op = T.op[0]
        allowed = [T.pre, T.post]
        if k_op == "insert_multiple":
            exp, _ = T.ref()
            allowed += [exp[: len(T.pre) + i] for i in range(1, len(T.op[1]))]
            if len(T.op[1]) > 50:
                allowed = None  # checked as "old contents + a prefix of the new points" below
        pnew = T.alpha.ref_point("P5")
        seen = set()

        def bad(oracle, what, stepkind, when, observed, expected, probe):
            sig = f"C13|{k_op}|fault={when}:{stepkind}|{what}|{'auto' if T.cfg['auto_index'] else 'manual'}"
            if sig in seen:
                return
            seen.add(sig)
            out.append(viol(oracle, sig, observed=observed, expected=expected, probe=probe))

        nsteps = len(rec.steps)
        for k, (kind, detail) in enumerate(rec.steps):
            if nsteps > 400 and not (k < 40 or k >= nsteps - 40 or k % 251 == 0):
                # an operation with thousands of raw steps (a bulk insert): the first 40, the last 40 and every 251st
                # step are fault points - a stated bound on fault positions, not a sample
                continue
            variants = []
            if kind not in SKIP_BEFORE:
                variants.append("before")
            if kind in AFTER_KINDS:
                variants.append("after")
            stepkind = kind + (":" + str(detail[0]) if detail and kind in ("write", "seek", "truncate", "readinto", "close", "open", "text-close") else "")
            for when in variants:
                err = errno.ENOSPC if kind in ("write", "flush", "copy-chunk", "truncate", "open", "copy-open-dst") else errno.EIO
                counters["evaluations"] += 1
                if kind in ("write", "truncate", "copy-chunk", "copy-open-dst", "replace", "unlink", "close", "copy-close", "rename", "flush"):
                    counters["__distinct_nontrivial"] += 1
                counters[f"faults_{when}_{kind}"] += 1
                first = True
                for seq in (self.menu if not T.cfg.get("ladder") else self.menu[:6]):
                    w, plan, exc, val = self._faulted_world(T, k, when, err)
                    if plan.steps[: k] != rec.steps[: k] or plan.injected is None:
                        raise common.ToolingError(f"replay diverged before the fault point: history={T.history!r} op={T.op!r} step={k} "
                                                  f"injected={plan.injected!r} exc={exc!r}\nrecorded={rec.steps[:k + 1]!r}\nreplayed={plan.steps[:k + 1]!r}")
                    probe = ("fault", k, when, seq)
                    if first:
                        first = False
                        # (1) the error reaches the caller
                        if exc is None:
                            bad("error-reported", "error-swallowed", stepkind, when, ("ret", val), "the injected OSError", ("fault", k, when, ()))
                        elif not chain_has(exc, plan.injected):
                            bad("error-reported", "different-error", stepkind, when, repr(exc), repr(plan.injected), ("fault", k, when, ()))
                    inserted = attempted = 0
                    for c in seq:
                        r = w.apply(c)
                        if c[0] == "insert":
                            attempted += 1
                        if r[0] != "ret":
                            continue
                        if c[0] == "insert":
                            inserted += 1
                            continue
                        if c[0] == "reopen":
                            continue
                        # a read that answered: compare with the object's own storage at that moment
                        try:
                            own = [refmodel.rp_of_point(p) for p in w.db.storage.read()]
                        except Exception:
                            continue
                        _, exp_out = W.ref_apply(c, own, T.alpha)
                        counters["continuation_reads_compared"] += 1
                        if r[:2] != exp_out:
                            bad("consistent-answers", f"wrong-answer:{c[0]}-after-{'+'.join(x[0] for x in seq[:seq.index(c)]) or 'fault'}",
                                stepkind, when, r, exp_out, probe)
                    # (3) after close the file decodes to old or new (+ the continuation's insert iff it succeeded)
                    try:
                        w.db.close()
                    except Exception:
                        pass
                    data = w.file_bytes()
                    # an insert of the continuation that raised may or may not have stored its row (that is C11's subject)
                    ok_sets = [a + [pnew] * j for a in (allowed or []) for j in range(inserted, attempted + 1)]
                    rc = recover(data) if data is not None else ("exc", "file missing")
                    counters["final_files_decoded"] += 1
                    if allowed is None:
                        exp_full, _ = T.ref()
                        got = rc[1] if rc[0] == "ok" else None
                        okp = got is not None and any(
                            got == exp_full[:n] + [pnew] * j for j in range(inserted, attempted + 1)
                            for n in range(len(T.pre), len(exp_full) + 1) if len(got) - j == n)
                        if not okp:
                            bad("file-old-or-new", "file-not-old-plus-prefix", stepkind, when, (rc[0], len(got) if got is not None else rc[1]), "old contents + a prefix of the new points", probe)
                        continue
                    if rc[0] == "exc":
                        bad("file-old-or-new", "file-undecodable", stepkind, when, rc[1], ok_sets[:2], probe)
                    elif rc[1] not in ok_sets:
                        bad("file-old-or-new", "file-neither-old-nor-new" + ("+insert" if inserted else ""), stepkind, when, rc[1], ok_sets[:2], probe)
        return out

    def coverage_extra(self, res):
        c = res.counters
        return {
            "evaluations": int(c.get("evaluations", 0)) or 1,
            "distinct_nontrivial": int(c.get("__distinct_nontrivial", 0)),
            "continuations_per_fault": len(self.menu),
            "faults_by_step_kind": {k[7:]: v for k, v in sorted(c.items()) if k.startswith("faults_")},
        }


def make(tier, seed):
    return C13(tier, seed)
