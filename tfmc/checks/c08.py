"""C08 - timestamps are stored as exact UTC instants and ordered correctly (DESIGN 4, C08).

One explicit-state BFS per (process time zone x instant cluster x storage x index path): histories
insert a; insert b; update(time=...)/update_all/reopen over an alphabet of instants one microsecond
apart, expressed in UTC, with fixed offsets, as zoneinfo values and as naive local values (incl.
DST gap / fold wall-clock times).  Instants are compared as integers (microseconds since epoch).
"""

import datetime as dt
import zoneinfo

from .. import alphabet, common, explorer, observers, qast, refmodel, world as W
from .base import E1Check, viol, finalize

UTC = dt.timezone.utc
US = dt.timedelta(microseconds=1)
EPOCH = dt.datetime(1970, 1, 1, tzinfo=UTC)

ZONES = ["UTC", "America/Los_Angeles", "Australia/Lord_Howe", "Asia/Kathmandu", "Europe/London"]
CLUSTERS = [
    ("epoch", dt.datetime(1970, 1, 1, tzinfo=UTC), None),
    ("la-fold-2021", dt.datetime(2021, 11, 7, 9, 0, 0, tzinfo=UTC), ("America/Los_Angeles", dt.datetime(2021, 11, 7, 1, 30))),
    # the second reading of 01:30 Europe/London is at offset ZERO, yet not in UTC (and == the cluster centre)
    ("london-fold-2021", dt.datetime(2021, 10, 31, 1, 30, 0, tzinfo=UTC), ("Europe/London", dt.datetime(2021, 10, 31, 1, 30))),
    ("y2038", dt.datetime(2038, 1, 19, 3, 14, 7, tzinfo=UTC), None),
    ("y2240", dt.datetime(2240, 12, 31, 23, 59, 59, 999998, tzinfo=UTC), None),
    ("y1700", dt.datetime(1700, 1, 1, tzinfo=UTC), None),
    ("lmt-1883", dt.datetime(1883, 11, 18, 20, 0, 0, tzinfo=UTC), None),
    ("la-gap-2021", dt.datetime(2021, 3, 14, 10, 0, 0, tzinfo=UTC), ("America/Los_Angeles", dt.datetime(2021, 3, 14, 2, 30))),
    ("lh-fold-2021", dt.datetime(2021, 4, 3, 15, 0, 0, tzinfo=UTC), ("Australia/Lord_Howe", dt.datetime(2021, 4, 4, 1, 45))),
    ("lh-gap-2021", dt.datetime(2021, 10, 2, 15, 30, 0, tzinfo=UTC), ("Australia/Lord_Howe", dt.datetime(2021, 10, 3, 2, 15))),
    ("y2106", dt.datetime(2106, 2, 7, 6, 28, 15, tzinfo=UTC), None),
    ("pre-epoch", dt.datetime(1969, 12, 31, 23, 59, 59, 999998, tzinfo=UTC), None),
]
OFFSETS = [dt.timedelta(hours=5, minutes=45), dt.timedelta(hours=-8), dt.timedelta(hours=10, minutes=30), dt.timedelta(hours=14),
           dt.timedelta(hours=-12), dt.timedelta(seconds=30)]


def to_us(t):
    """Instant of a datetime as integer microseconds since the epoch (integer arithmetic only).

    A naive value means local time (docs/source/time.rst); a conforming database never stores one.
    """
    if t.tzinfo is None:
        t = t.astimezone()
    d = t - EPOCH
    return (d.days * 86400 + d.seconds) * 10**6 + d.microseconds


def is_utc(t):
    """Aware and in UTC - a zone that merely happens to be at +00:00 right now (Europe/London in winter) is not UTC."""
    return t.tzinfo is not None and t.utcoffset() == dt.timedelta(0) and (t.tzinfo is UTC or t.tzinfo == UTC)


class C08Alphabet(alphabet.Alphabet):
    """Points / update values for one cluster in one process zone."""

    def __init__(self, seed, cluster, zone, wide):
        super().__init__(seed)
        name, c, special = CLUSTERS[cluster]
        self.cluster_name = name
        self.c = c
        tz = zoneinfo.ZoneInfo(zone)
        reps = {"utc": c}
        offs = OFFSETS if wide else OFFSETS[:3]
        for i, o in enumerate(offs):
            reps[f"off{i}"] = c.astimezone(dt.timezone(o))
        zs = ["America/Los_Angeles", "Australia/Lord_Howe", "Asia/Kathmandu"] if wide else ["America/Los_Angeles"]
        for z in zs:
            reps["zi-" + z.split("/")[1]] = c.astimezone(zoneinfo.ZoneInfo(z))
        reps["zi-London"] = c.astimezone(zoneinfo.ZoneInfo("Europe/London"))   # offset zero in winter, yet not UTC
        local = c.astimezone(tz)
        reps["naive-local"] = local.replace(tzinfo=None)  # fold is preserved by replace()
        if special and special[0] == zone:
            reps["naive-wall-fold0"] = special[1].replace(fold=0)
            reps["naive-wall-fold1"] = special[1].replace(fold=1)
        self.reps = reps
        self.points = {
            "A": (c - US, "m", {"k": "A"}, {"v": 0}),
            "B": (c, "m", {"k": "B"}, {"v": 1}),
            "C": (c + US, "n", {"k": "C"}, {"v": 2}),
        }
        for r, v in reps.items():
            if r != "utc":
                self.points["R:" + r] = (v, "m", {"k": r}, {"v": 3})
        if cluster == 0:
            self.points["NONE"] = (None, "m", {"k": "none"}, {"v": 4})
        # instants used as comparison values: the three of the cluster in UTC plus other representations
        self.rhs = [c - US, c, c + US, c - 2 * US, c + 2 * US] + [v for r, v in reps.items() if v.tzinfo is not None and r != "utc"][:3]
        self.rhs.append((c + US).astimezone(dt.timezone(dt.timedelta(hours=-8))))
        # a naive comparison value means local time, like a naive point time (the index reads it that way)
        self.rhs.append(reps["naive-local"])
        self.rhs += [reps[r] for r in ("naive-wall-fold0", "naive-wall-fold1") if r in reps]
        if special:
            # the same wall-clock time of a repeated (or skipped) hour with fold=0 and fold=1: equal and equally hashed
            # as Python objects, yet two different instants
            wall = special[1].replace(tzinfo=zoneinfo.ZoneInfo(special[0]))
            self.rhs += [wall.replace(fold=1), wall.replace(fold=0)]
        # update functions
        plus = dt.timezone(dt.timedelta(hours=10, minutes=30))
        refmodel.UPD_FN.update(
            t_plus1us=lambda old: old + US,
            t_to_offset=lambda old: old.astimezone(plus),
            t_minus1us_la=lambda old: (old - US).astimezone(zoneinfo.ZoneInfo("America/Los_Angeles")),
        )


class C08(E1Check):
    prop = "C08"

    def __init__(self, tier, seed):
        super().__init__(tier, seed)
        self.zone = "UTC"
        self.cluster = 0

    def make_alphabet(self, seed, cluster=0, zone="UTC"):
        return C08Alphabet(seed, cluster, zone, self.tier != "quick")

    def alpha_args(self):
        return (self.seed, self.cluster, self.zone)

    def worker_init(self):
        common.set_tz(self.zone)
        common.import_tinyflux()
        common.install_clock(0)

    def rule(self):
        return (
            "for each process TZ in {UTC, America/Los_Angeles, Australia/Lord_Howe, Asia/Kathmandu} x instant cluster (centre "
            "+-1us; quick 5 clusters: epoch, LA DST fold 2021, London fold 2021 (offset zero, not UTC), 2038-01-19, 2240-12-31; thorough 12 incl. 1700, 1883 LMT switch, LA "
            "gap, Lord Howe gap/fold, 2106, pre-epoch) x {memory, CSV} x {auto_index on, off}: BFS of depth 3 over inserts of "
            "every instant of the cluster and of the centre in every representation (UTC, fixed offsets, zoneinfo, naive local, "
            "gap/fold wall-clock values, None), update_all/update with static and callable times in several representations, "
            "reopen; observers: tz and instant of every returned time, get_timestamps, all six comparison operators against "
            "every instant of the cluster +-2us in several representations (count and search), stable sorted order"
        )

    def configs(self):
        cfgs = []
        for storage in ("mem", "csv"):
            for auto in (True, False):
                cfgs.append({"name": f"{self.zone}/{CLUSTERS[self.cluster][0]}/{storage}/{'auto' if auto else 'manual'}",
                             "storage": storage, "auto_index": auto, "tz": self.zone, "cluster": self.cluster})
        return cfgs

    def bounds(self):
        return {"N": 2, "D": 3}

    def op_list(self, cfg):
        A = self.alpha
        ops = [("insert", p, None, False, "db") for p in A.points]
        ups = []
        for r in (["utc", "off0", "zi-Los_Angeles", "naive-local"] + (["off1", "off2"] if self.tier != "quick" else [])):
            if r in A.reps:
                ups.append(("update_all", W.mkspec(time=A.reps[r] if r != "utc" else A.c - US), "db"))
        ups.append(("update_all", W.mkspec(time=(A.c + US).astimezone(dt.timezone(dt.timedelta(hours=-8)))), "db"))
        ups.append(("update", ("cmp", "time", (), "==", A.c), W.mkspec(time=("fn", "t_plus1us")), None, "db"))
        ups.append(("update_all", W.mkspec(time=("fn", "t_to_offset")), "db"))
        ups.append(("update", ("cmp", "time", (), ">=", A.c), W.mkspec(time=("fn", "t_minus1us_la")), None, "db"))
        for r in ("naive-wall-fold0", "naive-wall-fold1"):
            if r in A.reps:
                ups.append(("update_all", W.mkspec(time=A.reps[r]), "db"))
        ops += ups
        if cfg["storage"] == "csv":
            ops.append(("reopen",))
        if not cfg["auto_index"]:
            ops.append(("reindex",))
        return ops

    def enabled(self, op, contents, cfg, history):
        if not super().enabled(op, contents, cfg, history):
            return False
        if op[0] in ("update", "update_all") and not contents:
            return False
        return True

    # ------------------------------------------------------------------
    def _cmp_contents(self, got, exp, pre):
        """Position-wise comparison; returns a description or None.

        Relative oracle: a point the reference leaves untouched must be exactly what it was (whatever it was);
        a new or changed point must carry the reference instant (integer microseconds) as an aware UTC datetime.
        """
        if len(got) != len(exp):
            return f"{len(got)} points instead of {len(exp)}"
        for i, (g, e) in enumerate(zip(got, exp)):
            if g[1:] != e[1:]:
                return f"point {i}: non-time attributes differ"
            if i < len(pre) and e[1:] == pre[i][1:] and to_us(e[0]) == to_us(pre[i][0]) and repr(g[0].tzinfo) == repr(pre[i][0].tzinfo):
                # untouched by the reference and stored with the same tzinfo as before: only the instant must be kept
                if to_us(g[0]) != to_us(pre[i][0]):
                    return f"point {i}: untouched point's instant changed to {g[0].isoformat()}"
                continue
            if g[0].tzinfo is None or to_us(g[0]) != to_us(e[0]):
                return f"point {i}: instant {g[0].isoformat()} instead of {e[0].isoformat()}"
            if not is_utc(g[0]):
                return f"point {i}: time zone of stored time is {g[0].tzinfo!r}, not UTC"
        return None

    def transition(self, T, counters):
        out = []
        k = T.op[0]
        if k not in ("insert", "update", "update_all", "reopen", "reindex"):
            return out
        tzname = T.cfg["tz"]
        st = T.cfg["storage"]
        if T.outcome[0] == "exc":
            out.append(viol("completes", f"C08|{k}|raised|{st}|tz={tzname}", observed=T.outcome, expected="returns"))
            return out
        exp, exp_out = T.ref()
        counters[f"{k}_transitions"] += 1
        why = self._cmp_contents(T.post, exp, T.pre)
        if why:
            kind = "wrong-instant" if "instant" in why else ("non-utc-tzinfo" if "zone" in why else "contents")
            what = self._value_kind(T)
            out.append(viol("stored-instant", f"C08|{k}|{kind}|value={what}|{st}", observed=T.post, expected=exp, detail=why + f"; process TZ {tzname}"))
        elif k in ("update", "update_all") and T.outcome[:2] != exp_out:
            out.append(viol("update-count", f"C08|{k}|count|value={self._value_kind(T)}|{st}", observed=T.outcome, expected=exp_out))
        return out

    def _value_kind(self, T):
        op = T.op
        if op[0] == "insert":
            t = T.alpha.points[op[1]][0]
        elif op[0] in ("update", "update_all"):
            spec = W.spec_dict(op[2] if op[0] == "update" else op[1])
            t = spec.get("time")
            if refmodel._is_fn(t):
                return "callable:" + t[1]
        else:
            return "-"
        if t is None:
            return "None"
        if t.tzinfo is None:
            return "naive"
        if is_utc(t):
            return "utc"
        return "aware-non-utc"

    def observe(self, w, stored, history, cfg, counters):
        out = []
        db, A = w.db, self.alpha
        seen = set()
        served = observers.served_by(db, cfg)
        span = "y" + str(A.c.year)

        def bad(oracle, what, observed, expected, probe):
            sig = f"C08|{served}|{what}|cluster={A.cluster_name}|{cfg['storage']}"
            if sig in seen:
                return
            seen.add(sig)
            out.append(viol(oracle, sig, observed=observed, expected=expected, probe=probe, kind="state", detail=f"process TZ {cfg['tz']}"))

        if any(not is_utc(rp[0]) for rp in stored):
            # a state that already violates the property (reported at the transition that produced it): the
            # observers' reference is ill-defined on it
            counters["states_with_non_utc_stored_time_skipped"] += 1
            return out
        exp_us = [to_us(rp[0]) for rp in stored]
        # returned times: all(), get_timestamps()
        r = observers.call(lambda: [p.time for p in db.all(sorted=False)])
        if r[0] == "exc" or [to_us(t) for t in r[1]] != exp_us or not all(is_utc(t) for t in r[1]):
            bad("returned-times", "all-times", r, [rp[0] for rp in stored], ("all",))
        r = observers.call(db.get_timestamps)
        if r[0] == "exc" or [to_us(t) for t in r[1]] != exp_us or not all(is_utc(t) for t in r[1]):
            bad("returned-times", "get_timestamps", r, [rp[0] for rp in stored], ("get_timestamps",))
        counters["time_getter_reads"] += 2
        # comparisons
        for rhs in A.rhs:
            rus = to_us(rhs)
            for op, f in (("==", lambda a, b: a == b), ("!=", lambda a, b: a != b), ("<", lambda a, b: a < b),
                          ("<=", lambda a, b: a <= b), (">", lambda a, b: a > b), (">=", lambda a, b: a >= b)):
                q = qast.build(("cmp", "time", (), op, rhs))
                exp_idx = [i for i, u in enumerate(exp_us) if f(u, rus)]
                r = observers.call(db.count, q)
                counters["time_comparison_reads"] += 2
                if r != ("ret", len(exp_idx)):
                    bad("time-comparison", f"count:time{op}", r, len(exp_idx), ("count", op, rhs))
                r = observers.call(lambda: [to_us(p.time) for p in db.search(q, sorted=False)])
                e = [exp_us[i] for i in exp_idx]
                if r != ("ret", e):
                    bad("time-comparison", f"search:time{op}", r, e, ("search", op, rhs))
        # stable sorted order (ties keep insertion order): identify points by their tag
        r = observers.call(lambda: [(to_us(p.time), p.tags.get("k")) for p in db.search(qast.build(("noop", "time")))])
        e = [(to_us(rp[0]), rp[2].get("k")) for rp in sorted(stored, key=lambda rp: to_us(rp[0]))]
        if r != ("ret", e):
            bad("sorted-stable", "sorted-order", r, e, ("search-sorted",))
        if len(set(exp_us)) < len(exp_us):
            counters["states_with_time_ties"] += 1
        return out

    # ------------------------------------------------------------------ driver: one exploration per zone x cluster
    def run(self, log=print):
        import collections
        import time

        t0 = time.time()
        nclusters = 5 if self.tier == "quick" else len(CLUSTERS)
        total = explorer.Result()
        for zone in ZONES:
            for cl in range(nclusters):
                self.zone, self.cluster = zone, cl
                self.alpha = self.make_alphabet(self.seed, cl, zone)
                self._ops_cache = {}
                res = explorer.explore(self, self.configs(), self.alpha_args(), self.bounds(), budget_s=self.budget(), log=lambda *a: None)
                total.states += res.states
                total.transitions += res.transitions
                total.observed_states += res.observed_states
                total.per_config += res.per_config
                total.counters.update(res.counters)
                total.samples += res.samples[:1]
                total.exhaustive &= res.exhaustive
                total.closed_all &= res.closed_all
                for v in res.violations:
                    if total.viol_count[v["signature"]] == 0:
                        total.violations.append(v)
                for s, n in res.viol_count.items():
                    total.viol_count[s] += n
            log(f"  zone {zone}: cumulative {total.states} states, {total.transitions} transitions, {time.time() - t0:.1f}s")
        cov = {
            "states": total.states, "transitions": total.transitions, "traces_validated_against_impl": total.transitions,
            "samples": total.samples[:6] or [{"note": "none"}], "exhaustive": bool(total.exhaustive), "closed": bool(total.closed_all),
            "bounds": self.bounds(), "zones": ZONES, "clusters": [c[0] for c in CLUSTERS[:nclusters]],
            "runs": len(total.per_config), "observed_states": total.observed_states,
            "counters": dict(sorted(total.counters.items())), "rule": self.rule(),
        }
        return finalize(self, total.violations, total.viol_count, cov, t0, log)

    def recheck(self, rec):
        cfg = rec["cfg"]
        self.zone, self.cluster = cfg["tz"], cfg["cluster"]
        common.set_tz(self.zone)
        self.alpha = self.make_alphabet(self.seed, self.cluster, self.zone)
        return super().recheck(rec)


def make(tier, seed):
    return C08(tier, seed)
