"""Base class for E1 (history exploration) checks and the shared finalisation logic."""

import collections
import json
import os
import subprocess
import sys
import time

from .. import alphabet, common, evidence, explorer, findings, ladder, refmodel, world as W


def viol(oracle, signature, observed=None, expected=None, detail="", probe=None, kind="transition"):
    return {
        "oracle": oracle,
        "signature": signature,
        "observed": observed,
        "expected": expected,
        "detail": detail,
        "probe": probe,
        "kind": kind,
    }


CFG4 = [
    {"name": "mem/auto", "storage": "mem", "auto_index": True},
    {"name": "mem/manual", "storage": "mem", "auto_index": False},
    {"name": "csv/auto", "storage": "csv", "auto_index": True},
    {"name": "csv/manual", "storage": "csv", "auto_index": False},
]


def buffered_writes_off(cfg):
    """File bytes may only be compared before/after a call when every insert has been flushed (the default)."""
    return cfg.get("csv", {}).get("flush_on_insert", True)


def option_configs(tier):
    """Non-default storage options for the content checks: writes stay buffered (flush_on_insert=False)."""
    return [{"name": "csv/auto/flush_on_insert=False", "storage": "csv", "auto_index": True, "csv": {"flush_on_insert": False},
             "D": 3 if tier == "quick" else 4}]


def wide_configs(storages=("mem", "csv"), D=2):
    """Configurations that start from six stored points (inserted in time order, or out of order and re-indexed):
    single operations on a database larger than the BFS bound N."""
    ordered = ("insert_multiple", ("P0", "P1", "P2", "P3", "P8", "P5"), None, False, "db")
    shuffled = ("insert_multiple", ("P5", "P3", "P1", "P2", "P0", "P4"), None, False, "db")
    out = []
    for c in CFG4:
        if c["storage"] not in storages:
            continue
        for name, init in (("wide6-ordered", (ordered,)), ("wide6-shuffled", (shuffled, ("reindex",) if not c["auto_index"] else ("count", ("noop", "time"), None)))):
            d = dict(c)
            d.update(name=c["name"] + "/" + name, N=7, D=D, init=init)
            out.append(d)
    return out


def closure_configs(storages=("mem", "csv"), N=2, D=60):
    """Configurations explored to the fixpoint: all histories of ANY length that stay within N stored points."""
    out = []
    for c in CFG4:
        if c["storage"] in storages:
            d = dict(c)
            d.update(name=c["name"] + f"/closure-N{N}", N=N, D=D)
            out.append(d)
    return out


class E1Check:
    prop = "C00"
    level = "model_checking"
    engine = "histmc"
    assumptions = [
        "CPython interpreter semantics are deterministic for the explored calls (PYTHONHASHSEED=0, pinned TZ, virtual clock)",
        "the reference model (tfmc/refmodel.py, tfmc/qast.py) is a faithful reading of the documentation and the property statement",
        "bounded alphabets: claims hold for the explored points/queries/updates and <= N stored points only",
    ]

    def __init__(self, tier, seed):
        self.tier = tier
        self.seed = seed
        self.alpha = self.make_alphabet(seed)
        self._ops_cache = {}
        self._lp = {}  # ladder configuration name -> its probe operations

    # ---- to be specialised ---------------------------------------------------------------
    def make_alphabet(self, seed):
        return ladder.install(alphabet.Alphabet(seed))

    def ladder_sizes(self):
        return ladder.LADDER_QUICK if self.tier == "quick" else ladder.LADDER_THOROUGH

    def ladder_vocab(self, n):
        """A small query vocabulary over the keys of the generated ladder points."""
        A = self.alpha
        base = A.t[0]
        import datetime as _dt

        tl = base + _dt.timedelta(days=1)
        return [
            ("cmp", "tags", ("i",), "==", "5"), ("cmp", "tags", ("i",), "==", str(n - 1)), ("cmp", "tags", ("a",), "==", A.x),
            ("cmp", "fields", ("w",), ">=", n // 2), ("cmp", "fields", ("w",), "<", 12), ("cmp", "fields", ("v",), ">=", 3),
            ("cmp", "fields", ("v",), "==", 1), ("exists", "fields", ("v",)), ("not", ("exists", "fields", ("v",))),
            ("cmp", "measurement", (), "==", "big"), ("cmp", "measurement", (), "==", "n"), ("cmp", "measurement", (), "==", "h"),
            ("cmp", "time", (), "<", tl + _dt.timedelta(seconds=10)), ("cmp", "time", (), ">=", tl + _dt.timedelta(seconds=n // 2)),
            ("cmp", "time", (), "==", tl + _dt.timedelta(seconds=n - 1)), ("regex", "search", "tags", ("q",), "line", 0),
            ("and", ("cmp", "fields", ("v",), ">=", 3), ("cmp", "measurement", (), "==", "big")),
            ("or", ("cmp", "tags", ("i",), "==", "1"), ("cmp", "fields", ("w",), "==", n - 2)),
            ("cmp", "fields", ("w", ("map", "plus_one")), "==", n), ("test", "fields", ("w",), "is_even", ()),
            ("noop", "tags"), ("cmp", "tags", ("i",), "==", "h7"),
        ]

    def alpha_args(self):
        return (self.seed,)

    def worker_init(self):
        common.import_tinyflux()
        common.install_clock(0)

    def configs(self):
        return [dict(c) for c in CFG4]

    def bounds(self):
        return {"N": 3, "D": 4}

    def budget(self):
        return None

    def op_list(self, cfg):
        raise NotImplementedError

    def ops(self, cfg):
        k = cfg["name"]
        if k not in self._ops_cache:
            self._ops_cache[k] = self.ladder_op_list(cfg) if cfg.get("ladder") else self.op_list(cfg)
        return self._ops_cache[k]

    def ladder_op_list(self, cfg):
        return ladder.ops(self.alpha, cfg)

    def enabled(self, op, contents, cfg, history):
        n = W.op_inserts(op)
        if n and len(contents) + n > cfg.get("N", self.bounds()["N"]):
            return False
        return True

    def apply(self, world, op, T):
        """Perform the transition; checks that need to record or perturb the call override this."""
        return world.apply(op)

    def is_probe(self, op, cfg):
        """Probe transitions are executed and checked but their successors are not enqueued.

        Decided per configuration and independent of the order in which a worker meets configurations, so
        that a recorded violation replays through the same oracle path.
        """
        self.ops(cfg)  # builds the tables
        if cfg.get("ladder"):
            return op in self._lp.get(cfg["name"], ())
        return self.is_std_probe(op)

    def is_std_probe(self, op):
        return False

    def initial_contents(self, cfg):
        """Reference contents of the configuration's initial history (cfg["init"], default empty)."""
        c = []
        for op in cfg.get("init", ()):
            c, _ = W.ref_apply(op, c, self.alpha)
        return c

    def unreadable(self, T, exc):
        return [viol("storage-readable", f"{self.prop}|storage-unreadable|op={T.op[0]}|{T.cfg['name']}",
                     observed=repr(exc), detail="db.storage.read() raised after the operation")]

    def transition(self, T, counters):
        return []

    def observe(self, world, stored, history, cfg, counters):
        return []

    def coverage_extra(self, res):
        return {}

    def post_explore(self, res):
        """Parent-side verdicts after the exploration (may append to res.violations / res.viol_count)."""

    def rule(self):
        return ""

    # ---- replay of one record (used by the determinism gate and ./run.sh replay) -------------
    def recheck(self, rec):
        """Re-execute a recorded violation with plain API calls; returns the violations seen."""
        cfg = dict(rec["cfg"])
        cfg["name"] = rec["config"]
        hist = tuple(rec["history"])
        counters = collections.Counter()
        self.ops(cfg)  # builds the per-configuration operation / probe tables the oracles consult
        init = tuple(tuple(o) if isinstance(o, list) else o for o in cfg.get("init", ()))

        def contents_of(h):
            """Stored contents as the exploration saw them: the reference for the initial history, else the database's own."""
            if tuple(h) == init:
                return self.initial_contents(cfg)
            w0 = W.World.build(cfg, self.alpha, h)
            st = w0.stored()
            w0.close()
            return st

        if "unexpected-exception-while-" in rec.get("signature", ""):
            explorer._CTX.update(check=self, cfgs=[cfg], alpha=self.alpha)
            try:
                w0 = W.World.build(cfg, self.alpha, hist)
                stored = w0.stored()
                w0.close()
            except Exception as e:
                v = explorer._crash_violation(self, e, "observing", hist)
                return [v] if v else []
            out = []
            if "observing" in rec["signature"]:
                r = explorer._observe((0, hist, stored))
                out += r[0]
            else:
                r = explorer._expand((0, hist, stored))
                for op, outcome, key, post, viols in r[0]:
                    out += viols
            return out
        if rec.get("kind") == "state":
            stored = contents_of(hist)
            w = W.World.build(cfg, self.alpha, hist)
            out = self.observe(w, stored, hist, cfg, counters)
            w.close()
            return out
        pre_hist, op = hist[:-1], hist[-1]
        pre = contents_of(pre_hist)
        w = W.World.build(cfg, self.alpha, pre_hist)
        T = explorer.Transition()
        T.cfg, T.alpha, T.history, T.op, T.pre, T.world, T._ref = cfg, self.alpha, pre_hist, op, pre, w, None
        T.pre_bytes = w.file_bytes()
        T.pre_tmp, T.pre_dbdir = (w.tmp_listing(), w.db_listing()) if w.path else (None, None)
        T.pre_valid = w.db.index.valid
        T.extra = None
        T.outcome = self.apply(w, op, T)
        T.post_bytes = w.file_bytes()
        T.post_tmp, T.post_dbdir = (w.tmp_listing(), w.db_listing()) if w.path else (None, None)
        T.post_valid = w.db.index.valid
        try:
            T.post = w.stored()
        except Exception as e:
            T.post = None
            out = self.unreadable(T, e)
            w.close()
            return out
        out = self.transition(T, counters)
        w.close()
        return out

    # ---- main --------------------------------------------------------------------------------
    def run(self, log=print):
        t0 = time.time()
        cfgs = self.configs()
        # configurations with an initial history (ladder, wide, long runs) and fixpoint runs first: a time budget must
        # not starve them behind the deep general-purpose searches
        cfgs = sorted(cfgs, key=lambda c: 0 if (c.get("ladder") or c.get("init")) else (1 if "closure" in c["name"] else 2))
        res = explorer.explore(self, cfgs, self.alpha_args(), self.bounds(), budget_s=self.budget(), log=log)
        cov = {
            "states": res.states,
            "transitions": res.transitions,
            "traces_validated_against_impl": res.transitions,
            "samples": res.samples or [{"note": "no successor states"}],
            "exhaustive": bool(res.exhaustive),
            "closed": bool(res.closed_all),
            "closed_configs": [p["config"] for p in res.per_config if p["closed"]],
            "bounds": self.bounds(),
            "caps_hit": res.caps,
            "per_config": res.per_config,
            "observed_states": res.observed_states,
            "counters": dict(sorted(res.counters.items())),
            "rule": self.rule(),
            "alphabet_variant": self.alpha.variant if hasattr(self.alpha, "variant") else 0,
            "explanation": "every transition is a real API call on a real TinyFlux object, compared with the "
            "reference model (so every explored trace is an implementation trace)",
        }
        cov.update(self.coverage_extra(res))
        self.post_explore(res)
        return finalize(self, res.violations, res.viol_count, cov, t0, log)


def finalize(check, violations, viol_count, coverage, t0, log=print):
    """Classify violations (known / new), gate on determinism, write artefacts + evidence, exit code."""
    known = findings.load_known()
    new, listed = [], []
    for v in violations:
        k = findings.known_for(v["property"], v["signature"], known)
        (listed if k else new).append((v, k))
    rc = 0
    lines = []
    for v, k in listed:
        lines.append(f"KNOWN-FINDING: property={v['property']} {k.get('what', v['signature'])} [{v['signature']}] x{viol_count[v['signature']]}")
    gate_budget = int(os.environ.get("TFMC_MAX_GATE", "25"))
    for v, _ in new:
        path = findings.write_replay(v)
        if gate_budget > 0:
            gate_budget -= 1
            ok = determinism_gate(path, log)
            if ok is False:
                raise common.ToolingError(f"violation {v['signature']} did not replay deterministically: {path}")
        lines.append(f"VIOLATION property={v['property']} replay={path}")
        log(f"    signature: {v['signature']}  (x{viol_count[v['signature']]})")
        log(f"    oracle: {v['oracle']}  detail: {v.get('detail', '')}")
        if v.get("history") is not None:
            log(f"    history: {[W.pretty_op(o) for o in v['history']]}")
        if v.get("input") is not None:
            log(f"    input: {common.short(v['input'])}")
        if v.get("probe") is not None:
            log(f"    probe: {common.short(v['probe'])}")
        log(f"    observed: {common.short(v['observed'])}")
        log(f"    expected: {common.short(v['expected'])}")
        rc = 1
    coverage["violation_signatures"] = {s: n for s, n in sorted(viol_count.items())}
    coverage["known_findings_seen"] = [v["signature"] for v, _ in listed]
    try:
        evidence.write(check.prop, check.tier, check.seed, check.level, coverage, time.time() - t0, len(new), check.assumptions)
    except common.ToolingError as e:
        if not new:
            raise
        # violations were found: they are reported even if this (abnormal) run cannot produce a valid evidence file
        log(f"    note: {e}")
    for ln in lines:
        print(ln, flush=True)
    return rc


def determinism_gate(path, log):
    """Replay the artefact twice in fresh processes; both must reproduce with identical observations."""
    outs = []
    for _ in range(2):
        p = subprocess.run(
            [sys.executable, "-m", "tfmc.run", "replay", path, "--json"],
            cwd=common.VERIF, capture_output=True, text=True, env=dict(os.environ),
        )
        outs.append((p.returncode, p.stdout.strip().splitlines()[-1] if p.stdout.strip() else ""))
    if outs[0] != outs[1]:
        # the verdict is what must repeat: same exit code, same signature, same set of other signatures; a detail of the
        # observed value that differs between two processes (an address, a wall-clock default) is reported, not fatal
        def verdict(o):
            try:
                d = json.loads(o[1])
                return (o[0], d.get("reproduced"), d.get("signature"), tuple(d.get("other_signatures") or ()))
            except Exception:
                return o

        if verdict(outs[0]) != verdict(outs[1]):
            log(f"    determinism gate: replays differ: {outs}")
            return False
        log("    determinism gate: both replays reproduce the violation; the observed values differ in detail between processes")
    if outs[0][0] != 1:
        log(f"    determinism gate: replay did not reproduce (rc={outs[0][0]}): {outs[0][1]}")
        return False
    return True
