"""C06 - a valid index is always equivalent to one rebuilt from storage (DESIGN 4, C06)."""

from .. import ladder, observers, qast, refmodel, world as W
from .base import E1Check, viol, closure_configs, wide_configs
from .c01 import std_ops


def fault_ops(alpha, tier):
    x, t = alpha.x, alpha.t
    sel = ("cmp", "tags", ("a",), "==", x)
    F = [
        ("bad_insert", "int", "db"),
        ("bad_insert_multiple", ("P1", "P4"), 1, "str", "db"),
        ("bad_insert_multiple", ("P0", "P1"), 2, "None", "db"),
        ("bad_insert_multiple", ("P0", "P1"), 1, "genraise", "db"),
        ("update_raise", None, "tags", 1, None, None, "db"),
        ("update_raise", None, "fields", 2, "time", None, "db"),
        ("update_raise", sel, "tags", 1, "time", None, "db"),
        ("update_badret", None, "time", None, None, "db"),
        ("bad_args", "update-no-attr"),
    ]
    if tier != "quick":
        F += [
            ("bad_insert", "None", "h:m"),
            ("bad_insert_multiple", ("P0", "P1"), 0, "dict", "db"),
            ("bad_insert_multiple", ("P2", "P0"), 1, "int", "h:n"),
            ("update_raise", sel, "measurement", 1, None, "m", "db"),
            ("update_raise", None, "time", 2, None, None, "h:m"),
            ("update_badret", sel, "fields", "tags", None, "db"),
            ("update_badret", None, "measurement", None, None, "db"),
            ("bad_args", "select-bad-keys"),
            ("bad_args", "search-non-query"),
        ]
    return F


class C06(E1Check):
    prop = "C06"

    def __init__(self, tier, seed):
        super().__init__(tier, seed)
        lvl = "quick" if tier == "quick" else "thorough"
        atoms = self.alpha.atoms(lvl)
        self.vocab = atoms + [("not", a) for a in atoms[::2]] + [
            ("and", a, b) for a in self.alpha.representatives(4) for b in self.alpha.representatives(4) if a is not b
        ]
        self.diff_vocab = atoms

    def rule(self):
        return (
            "BFS over histories of the standard alphabet extended with operations that raise; whenever the database "
            "reports its index valid, every answer the index can give (search items+exactness for the vocabulary, "
            "measurements, tag/field keys and values, timestamps, len, empty, latest_time; all measurement arguments) "
            "is compared with a fresh Index built from the state's stored contents, and count/search answers are "
            "compared with a replica whose index was force-rebuilt; transition invariants on index validity"
        )

    def bounds(self):
        return {"N": 3, "D": 4} if self.tier == "quick" else {"N": 4, "D": 6, "max_states": 60000}

    def configs(self):
        # the depth-bounded runs plus runs to the fixpoint within 2 stored points (histories of any length)
        extra = closure_configs(("mem",))[:1] if self.tier == "quick" else closure_configs(("mem", "csv"))
        lad = ladder.configs(self.ladder_sizes(), storages=("mem", "csv"), autos=(True, False), D=2, big_depth=1 if self.tier == "quick" else None)
        return super().configs() + wide_configs(("mem", "csv"), D=2 if self.tier == "quick" else 3) + lad + extra

    def budget(self):
        return 600 if self.tier == "quick" else 1200

    def op_list(self, cfg):
        # PF is dated after the virtual clock: a point without a time (P6, stamped "now") is then out of order
        extra = [("insert", "PF", None, False, "db"), ("insert", "P6", None, False, "db"), ("insert", "PH", None, False, "db")]
        if "closure" in cfg["name"] and self.tier == "quick":
            extra = []  # the quick fixpoint run uses the standard alphabet and the faults only
        return std_ops(self.alpha, cfg, self.tier) + extra + fault_ops(self.alpha, self.tier)

    def enabled(self, op, contents, cfg, history):
        if not super().enabled(op, contents, cfg, history):
            return False
        if op[0] == "bad_insert_multiple" and len(contents) + len(op[1]) > cfg.get("N", self.bounds()["N"]):
            return False
        return W.fault_enabled(op, contents)

    def transition(self, T, counters):
        out = []
        k = T.op[0]
        auto = T.cfg["auto_index"]
        if auto and k == "insert" and T.outcome[0] == "ret" and T.pre_valid:
            newt = T.post[-1][0] if T.post else None
            in_order = not T.pre or all(newt >= p[0] for p in T.pre)
            counters["insert_in_order" if in_order else "insert_out_of_order"] += 1
            if in_order and not T.post_valid:
                out.append(viol("in-order-insert-keeps-valid", "C06|in-order-insert-invalidated-index", observed=T.post_valid, expected=True))
        if auto and k in W.READ_OPS and T.outcome[0] == "ret" and not T.post_valid:
            out.append(viol("read-leaves-valid", f"C06|read-left-index-invalid|{k}", observed=False, expected=True))
        if T.outcome[0] == "exc":
            counters["raising_transitions"] += 1
        return out

    def observe(self, w, stored, history, cfg, counters):
        db = w.db
        out = []
        if cfg.get("ladder"):
            if not db.index.valid and cfg["auto_index"]:
                db.count(qast.build(("noop", "time")))
            return observers.index_equiv("C06", db, stored, self.ladder_vocab(cfg["ladder"]), counters, tag="|ladder") if db.index.valid else []
        if db.index.valid:
            counters["states_with_valid_index"] += 1
            out += observers.index_equiv("C06", db, stored, self.vocab, counters)
            # database-level differential against a forced rebuild on a replica
            w2 = W.World.build(cfg, self.alpha, history)
            w2.db.index.invalidate()
            w2.db.reindex()
            seen = set()
            for ast in self.diff_vocab:
                q = qast.build(ast)
                for name in ("count", "search"):
                    a = observers.call(getattr(db, name), q)
                    b = observers.call(getattr(w2.db, name), q)
                    if name == "search":
                        a = ("ret", [refmodel.rp_of_point(p) for p in a[1]]) if a[0] == "ret" else a
                        b = ("ret", [refmodel.rp_of_point(p) for p in b[1]]) if b[0] == "ret" else b
                    counters["differential_reads"] += 1
                    if a != b:
                        sig = f"C06|differs-from-rebuild|{name}|shape={qast.shape(ast)}"
                        if sig not in seen:
                            seen.add(sig)
                            out.append(viol("read-equals-after-rebuild", sig, observed=a, expected=b, probe=(name, ast, None), kind="state"))
            w2.close()
        else:
            counters["states_with_invalid_index"] += 1
            if cfg["auto_index"]:
                # any read must leave it valid
                db.count(qast.build(("noop", "time")))
                if not db.index.valid:
                    out.append(viol("read-leaves-valid", "C06|read-left-index-invalid|count", observed=False, expected=True, kind="state"))
                else:
                    out += observers.index_equiv("C06", db, stored, self.vocab[:40], counters, tag="|after-auto-reindex")
        return out


def make(tier, seed):
    return C06(tier, seed)
