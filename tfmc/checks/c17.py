"""C17 - queries that compare equal behave identically (DESIGN 4, C17).

All ordered pairs of terms of a closure of the term algebra over a vocabulary built to be
confusable; for every pair that compares equal the hashes and the truth vectors over the C09 point
universe must be equal.  Commutativity of & and | is checked for all ordered pairs of hashable
operands (simple or compound, both positions); map-queries must be equal to nothing.
"""

import collections
import datetime as dt
import re
import zoneinfo

from .. import alphabet, common, qast, univ
from .base import viol
from . import c09


# 2021-10-31 01:30 Europe/London happens twice: at 00:30Z (fold=0, BST) and at 01:30Z (fold=1, GMT)
FOLD0 = dt.datetime(2021, 10, 31, 1, 30, tzinfo=zoneinfo.ZoneInfo("Europe/London"))
FOLD1 = FOLD0.replace(fold=1)
QUICK_ATOMS = 35


def fold_points(alpha):
    """Points at and between the two instants, so that the two readings are told apart."""
    out = []
    for h, m in ((0, 30), (1, 0), (1, 30)):
        out.append((dt.datetime(2021, 10, 31, h, m, tzinfo=dt.timezone.utc), "m", {"a": alpha.x, "b": alpha.x}, {"v": 1, "w": 1}))
    return out


def confusable_atoms(alpha, n=None):
    x, y = alpha.x, alpha.y
    t1 = alpha.t[1]
    X = x.upper() if x.upper() != x else x + "X"
    A = [
        ("cmp", "tags", ("a",), "==", x),
        ("regex", "matches", "tags", ("a",), X, 0),
        ("regex", "matches", "tags", ("a",), X, re.IGNORECASE),
        ("cmp", "fields", ("v",), "==", 1),
        ("cmp", "tags", ("a",), "!=", x),
        ("regex", "search", "tags", ("a",), X, 0),
        ("cmp", "fields", ("v",), "==", 1.0),
        ("cmp", "time", (), "<=", t1),
        ("cmp", "time", (), "<=", t1.astimezone(dt.timezone(dt.timedelta(hours=5, minutes=45)))),
        ("test", "fields", ("v",), "gt", (0,)),
        ("test", "fields", ("v",), "gt", (1,)),
        ("exists", "tags", ("a",)),
        ("exists", "fields", ("a",)),
        ("noop", "tags"),
        ("noop", "fields"),
        ("cmp", "tags", ("a", ("map", "upper")), "==", X),
        ("cmp", "measurement", (), "==", "m"),
        ("regex", "search", "tags", ("a",), X, re.IGNORECASE),
        ("cmp", "fields", ("v",), "==", True),
        ("cmp", "tags", ("b",), "==", x),
        ("cmp", "tags", ("a",), "==", y),
        ("cmp", "fields", ("v",), "<", 1),
        ("cmp", "fields", ("v",), "<=", 1),
        ("test", "fields", ("v",), "is_pos", ()),
        ("cmp", "tags", (("map", "rekey"), "z"), "==", x),     # map first, then a key
        ("cmp", "fields", ("v",), "==", -1),                    # hash(-1) == hash(-2) in CPython
        ("cmp", "fields", ("v",), "==", -2),
        ("cmp", "fields", ("w",), "==", 0),                     # hash(0) == hash(2**61 - 1)
        ("cmp", "fields", ("w",), "==", 2**61 - 1),
        # the two readings of a repeated wall-clock hour: == and hash() of datetime ignore fold inside one zone
        ("cmp", "time", (), "==", FOLD0),
        ("cmp", "time", (), "==", FOLD1),
        ("cmp", "time", (), "<", FOLD0),
        ("cmp", "time", (), "<", FOLD1),
        ("test", "time", (), "gt", (FOLD0,)),
        ("test", "time", (), "gt", (FOLD1,)),
        # --- beyond the quick slice
        ("cmp", "fields", ("w",), "==", 1),
        ("cmp", "tags", ("a",), "==", None),
        ("cmp", "tags", ("a",), "==", ""),
        ("cmp", "fields", ("v",), "==", None),
        ("cmp", "fields", ("v",), "==", 0),
        ("cmp", "fields", ("v",), "!=", 1),
        ("cmp", "fields", ("v",), ">", 1),
        ("cmp", "fields", ("v",), ">=", 1),
        ("cmp", "time", (), "<", t1),
        ("cmp", "time", (), "==", t1),
        ("cmp", "time", (), "==", t1 + dt.timedelta(microseconds=1)),
        ("cmp", "time", (), ">=", t1),
        ("cmp", "measurement", (), "!=", "m"),
        ("cmp", "measurement", (), "==", ""),
        ("cmp", "measurement", (), "==", "n"),
        ("regex", "matches", "measurement", (), "M", 0),
        ("regex", "matches", "measurement", (), "M", re.IGNORECASE),
        ("regex", "search", "measurement", (), "M", re.IGNORECASE),
        ("regex", "matches", "tags", ("b",), X, 0),
        ("test", "tags", ("a",), "starts_x", ()),
        ("test", "tags", ("a",), "is_none", ()),
        ("test", "fields", ("v",), "is_none", ()),
        ("test", "fields", ("v",), "is_even", ()),
        ("test", "fields", ("w",), "is_even", ()),
        ("test", "measurement", (), "starts_x", ()),
        ("test", "time", (), "gt", (t1,)),
        ("exists", "tags", ("b",)),
        ("exists", "fields", ("v",)),
        ("exists", "fields", ("w",)),
        ("noop", "time"),
        ("noop", "measurement"),
        ("cmp", "fields", ("v", ("map", "plus_one")), "==", 2),
        ("cmp", "fields", ("v", ("map", "ident")), "==", 1),
        ("cmp", "tags", (("map", "rekey"), "z"), "==", x),
        ("test", "tags", (("map", "nkeys"),), "is_even", ()),
        ("cmp", "measurement", (("map", "upper"),), "==", "M"),
    ]
    return A[:n] if n else A


def leafdiff(a, b):
    """Coarse signature part: which leaf shapes distinguish two terms that compared equal."""
    la = {qast.shape(x) for x in qast.leaves(a)}
    lb = {qast.shape(x) for x in qast.leaves(b)}
    d = sorted(la ^ lb)
    return "~".join(d) if d else "same-leaf-shapes"


class C17(univ.UnivCheck):
    prop = "C17"
    level = "model_checking"

    def __init__(self, tier, seed):
        super().__init__(tier, seed)
        self.alpha = alphabet.Alphabet(seed)
        atoms = confusable_atoms(self.alpha, QUICK_ATOMS if tier == "quick" else None)
        reps = [atoms[0], atoms[1], atoms[2], atoms[3]]
        self.fams = [("depth1-all-atoms", c09.step_asts(atoms))]
        if tier != "quick":
            self.fams.append(("depth2-4reps", c09.step_asts(c09.step_asts(reps))))
        else:
            self.fams.append(("depth2-2reps", c09.step_asts(c09.step_asts(reps[1:3]))))
        # commutativity operands: depth<=1 terms over a slice of the atoms
        self.comm_terms = c09.step_asts(atoms[: 12 if tier == "quick" else 24] + atoms[24:QUICK_ATOMS])
        self.U = c09.point_universe(self.alpha) + fold_points(self.alpha)
        self.rows = []  # (family index | -1 for commutativity, row)
        for fi, (_, terms) in enumerate(self.fams):
            self.rows += [(fi, i) for i in range(len(terms))]
        self.rows += [(-1, i) for i in range(len(self.comm_terms))]
        self.natoms = len(atoms)

    def rule(self):
        return (
            "all ordered pairs of depth<=1 terms over the confusable vocabulary (35 atoms quick / 72 thorough; incl. 1 vs 1.0 vs True, "
            "-1 vs -2, regex flags, the two folds of a repeated hour) and of "
            "depth<=2 terms over 2/4 representatives: q1==q2 must imply equal hashes and equal truth vectors over the "
            "384-point universe; (a&b)==(b&a), (a|b)==(b|a) for all ordered pairs of depth<=1 operands; a term containing "
            "map() must compare unequal to everything including a rebuilt copy of itself"
        )

    def universe_size(self):
        return len(self.rows)

    def shard(self, n, workers):
        per = max(1, n // (workers * 6))
        return [(i, min(n, i + per)) for i in range(0, n, per)]

    def coverage_extra(self, counters):
        return {
            "states": sum(len(t) for _, t in self.fams) + len(self.comm_terms),
            "transitions": int(counters.get("evaluations", 0)),
            "traces_validated_against_impl": int(counters.get("evaluations", 0)),
            "families": [{"name": n, "terms": len(t)} for n, t in self.fams] + [{"name": "commutativity-operands", "terms": len(self.comm_terms)}],
            "atoms": self.natoms,
            "equal_pairs_found": int(counters.get("equal_pairs", 0)),
        }

    def worker_init(self):
        common.import_tinyflux()
        from tinyflux import Point

        self.points = []
        for rp in self.U:
            self.points.append(c09.real_point(rp))
        self._cache = {}

    def _vec(self, q):
        v = 0
        for i, p in enumerate(self.points):
            try:
                if q(p):
                    v |= 1 << i
            except Exception:
                v |= 1 << (len(self.points) + i)  # raising is also behaviour
        return v

    def _fam(self, fi):
        if fi not in self._cache:
            terms = self.fams[fi][1] if fi >= 0 else self.comm_terms
            real = [qast.build(a) for a in terms]
            real2 = [qast.build(a) for a in terms]  # independently built copies (other operand position)
            vec = [self._vec(q) for q in real] if fi >= 0 else None
            self._cache[fi] = (terms, real, real2, vec)
        return self._cache[fi]

    def run_range(self, lo, hi):
        out, c, smp = [], collections.Counter(), []
        for fi, i in self.rows[lo:hi]:
            terms, real, real2, vec = self._fam(fi)
            a = real[i]
            if fi >= 0:
                hmap = qast.has_map(terms[i])
                for j in range(len(terms)):
                    b = real2[j]
                    c["evaluations"] += 1
                    eq = a == b
                    if not eq:
                        continue
                    c["equal_pairs"] += 1
                    if i != j:
                        c["__distinct_nontrivial"] += 1
                    if hmap or qast.has_map(terms[j]):
                        out.append(viol("map-never-equal", "C17|map-query-compares-equal", observed=True, expected=False,
                                        kind="input") | {"input": ("eq", terms[i], terms[j])})
                        continue
                    try:
                        hs = hash(a) == hash(b)
                    except Exception:
                        hs = False
                    if not hs:
                        out.append(viol("equal-hash", f"C17|equal-but-hash-differs|{leafdiff(terms[i], terms[j])}",
                                        observed="hash differs", expected="equal hashes", kind="input") | {"input": ("eq", terms[i], terms[j])})
                    if vec[i] != vec[j]:
                        diff = vec[i] ^ vec[j]
                        pi = ((diff & -diff).bit_length() - 1) % len(self.points)
                        out.append(viol("equal-behave", f"C17|equal-but-differ|{leafdiff(terms[i], terms[j])}",
                                        observed="evaluate differently on " + repr(self.U[pi]), expected="same truth value on every point",
                                        kind="input") | {"input": ("eq", terms[i], terms[j])})
                if len(smp) < 2 and i % 97 == 0:
                    smp.append({"family": self.fams[fi][0], "row_term": qast.pretty(terms[i]), "compared_with": len(terms)})
            else:
                ha = not qast.has_map(terms[i])
                for j in range(len(terms)):
                    b = real2[j]
                    hb = not qast.has_map(terms[j])
                    for opname in ("and", "or"):
                        c["evaluations"] += 1
                        ab = (a & b) if opname == "and" else (a | b)
                        ba = (b & a) if opname == "and" else (b | a)
                        if ha and hb and a.is_hashable() and b.is_hashable():
                            c["__distinct_nontrivial"] += 1
                            if not (ab == ba) or hash(ab) != hash(ba):
                                kinds = "-".join(sorted(["compound" if terms[k][0] in ("not", "and", "or") else "simple" for k in (i, j)]))
                                out.append(viol("commutativity", f"C17|not-commutative|{opname}|operands={kinds}", observed=False, expected=True,
                                                kind="input") | {"input": ("comm", opname, terms[i], terms[j])})
                        else:
                            if ab == ba or ab == ab:
                                out.append(viol("map-never-equal", "C17|map-compound-compares-equal", observed=True, expected=False,
                                                kind="input") | {"input": ("comm", opname, terms[i], terms[j])})
        return out, c, smp

    def recheck(self, rec):
        inp = rec["input"]
        self.worker_init()
        out = []
        if inp[0] == "eq":
            a, b = qast.build(inp[1]), qast.build(inp[2])
            if a == b:
                if qast.has_map(inp[1]) or qast.has_map(inp[2]):
                    out.append(viol("map-never-equal", "C17|map-query-compares-equal", observed=True, expected=False))
                if hash(a) != hash(b):
                    out.append(viol("equal-hash", f"C17|equal-but-hash-differs|{leafdiff(inp[1], inp[2])}"))
                if self._vec(a) != self._vec(b):
                    out.append(viol("equal-behave", f"C17|equal-but-differ|{leafdiff(inp[1], inp[2])}",
                                    observed="differ", expected="same"))
        else:
            _, opname, ta, tb = inp
            a, b = qast.build(ta), qast.build(tb)
            ab = (a & b) if opname == "and" else (a | b)
            ba = (b & a) if opname == "and" else (b | a)
            if not qast.has_map(ta) and not qast.has_map(tb):
                if not (ab == ba) or hash(ab) != hash(ba):
                    kinds = "-".join(sorted(["compound" if t[0] in ("not", "and", "or") else "simple" for t in (ta, tb)]))
                    out.append(viol("commutativity", f"C17|not-commutative|{opname}|operands={kinds}", observed=False, expected=True))
            elif ab == ba or ab == ab:
                out.append(viol("map-never-equal", "C17|map-compound-compares-equal", observed=True, expected=False))
        return out


def make(tier, seed):
    return C17(tier, seed)
