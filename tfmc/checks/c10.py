"""C10 - a Measurement handle is exactly the database restricted to that measurement (DESIGN 4, C10)."""

from .. import ladder, observers, qast, refmodel, world as W
from .base import E1Check, viol
from .c01 import std_ops
from .c03 import update_specs


def twin(op):
    """Database form of a handle-form operation."""
    k = op[0]
    if k == "insert":
        return ("insert", op[1], op[4][2:], False, "db")
    if k == "insert_multiple":
        return ("insert_multiple", op[1], op[4][2:], False, "db")
    if k == "remove":
        return ("remove", op[1], op[3][2:], "db")
    if k == "h_remove_all":
        return ("drop", op[1])
    if k == "update":
        return ("update", op[1], op[2], op[4][2:], "db")
    if k == "update_all":
        return ("update", ("noop", "measurement"), op[1], op[2][2:], "db")
    raise ValueError(op)


class C10(E1Check):
    prop = "C10"

    def __init__(self, tier, seed):
        super().__init__(tier, seed)
        A = self.alpha
        lvl = "quick" if tier == "quick" else "thorough"
        atoms = A.atoms(lvl)
        self.names = ["m", "n", "zz"] + ([""] if tier != "quick" else [])
        self.read_vocab = atoms + [("not", a) for a in atoms[::4]]
        self.ivocab = [a for a in atoms if a[0] in ("cmp", "exists")][::3]
        sels = [
            ("cmp", "tags", ("a",), "==", A.x),
            ("cmp", "time", (), "<=", A.t[1]),
            ("not", ("cmp", "fields", ("v",), "==", 1)),
            ("noop", "tags"),
            ("cmp", "measurement", (), "==", "n"),
            ("exists", "fields", ("w",)),
        ]
        specs = [s for _, s in update_specs(A)]
        if tier == "quick":
            specs = specs[::2]
        P = []
        for name in self.names:
            via = "h:" + name
            for p in ("P0", "P2", "P4"):
                P.append(("insert", p, None, False, via))
            P.append(("insert_multiple", ("P1", "P2"), None, False, via))
            for s in sels:
                P.append(("remove", s, None, via))
            P.append(("h_remove_all", name))
            for spec in specs:
                for s in sels[:4]:
                    P.append(("update", s, spec, None, via))
                P.append(("update_all", spec, via))
        self.probe_list = P
        self.probe_set = set(P)

    def rule(self):
        return (
            "BFS over histories of the standard alphabet plus handle acquisition (handles kept and used later, also after "
            "drop_measurement/remove_all cleared the cache); at every state, for measurement names m, n, absent zz (thorough: "
            "also ''), every handle operation (insert, insert_multiple, remove x6 selectors, remove_all, update x forms x "
            "selectors, update_all) is executed on a replica A and its database form on a replica B: outcomes, stored "
            "contents and index answers must be equal and equal to the reference restricted to the name; all handle reads and "
            "getters are compared with the reference restricted to the name"
        )

    def bounds(self):
        return {"N": 3, "D": 3} if self.tier == "quick" else {"N": 4, "D": 4, "max_states": 30000}

    def configs(self):
        lad = ladder.configs(self.ladder_sizes(), storages=("mem", "csv"), autos=(True,), D=2)
        return super().configs() + lad

    def ladder_op_list(self, cfg):
        n = cfg["ladder"]
        base = ladder.ops(self.alpha, cfg) + [("handle", "big")]
        V = self.ladder_vocab(n)
        specs = [s for _, s in update_specs(self.alpha)][:6]
        extra = []
        for name in ("big", "n", "zz"):
            via = "h:" + name
            extra.append(("insert_multiple", tuple("H%d" % i for i in range(150, 300)), None, False, via))   # bulk through the handle
            extra.append(("insert", "P5", None, False, via))
            extra += [("remove", q, None, via) for q in V[:10]]
            extra.append(("h_remove_all", name))
            extra += [("update", q, sp, None, via) for q in V[:5] for sp in specs[:4]]
            extra += [("update_all", sp, via) for sp in specs[:4]]
        have = set(base)
        self._lp[cfg["name"]] = {e for e in extra if e not in have}
        return base + [e for e in extra if e not in have]

    def budget(self):
        return 600 if self.tier == "quick" else 1200

    def op_list(self, cfg):
        base = std_ops(self.alpha, cfg, self.tier)
        base += [("handle", "m"), ("handle", "n"), ("insert", "P0", None, False, "h:n"), ("h_remove_all", "m"),
                 ("getter", "get_field_keys", "n"), ("getter", "get_timestamps", "m")]
        have = set(base)
        self.probe_set = {p for p in self.probe_list if p not in have}
        return base + [p for p in self.probe_list if p in self.probe_set]

    def is_std_probe(self, op):
        return op in self.probe_set

    def enabled(self, op, contents, cfg, history):
        n = W.op_inserts(op)
        if n and len(contents) + n > cfg.get("N", self.bounds()["N"]) + (1 if self.is_probe(op, cfg) else 0):
            return False
        return True

    def coverage_extra(self, res):
        return {"handle_probes_per_state": len(self.probe_list), "names": self.names}

    def transition(self, T, counters):
        out = []
        op = T.op
        if op not in self.probe_list and op not in self._lp.get(T.cfg["name"], ()) and not (
                op[0] in ("insert", "h_remove_all") and op in (("insert", "P0", None, False, "h:n"), ("h_remove_all", "m"))):
            return out
        if op[0] not in ("insert", "insert_multiple", "remove", "h_remove_all", "update", "update_all") or (op[0] != "h_remove_all" and not str(op[-1]).startswith("h:")):
            return out
        counters["handle_probe_transitions"] += 1
        name = op[1] if op[0] == "h_remove_all" else (op[-1][2:])
        held = "held" if name in T.world.handles else "fresh"
        sig = f"C10|{op[0]}|name={'absent' if name == 'zz' else ('empty' if name == '' else 'present')}|{held}"
        exp, exp_out = T.ref()
        if T.outcome[:2] != exp_out or T.post != exp:
            if name == "" and self._as_if_unfiltered(T):
                sig = "C10|empty-measurement-name-treated-as-no-filter|writes"
                out.append(viol("handle-equals-reference", sig, observed=(T.outcome, T.post), expected=(exp_out, exp), detail=f"pre={T.pre!r}"))
                return out
            out.append(viol("handle-equals-reference", sig + "|differs-from-reference", observed=(T.outcome, T.post), expected=(exp_out, exp), detail=f"pre={T.pre!r}"))
        # replica B: the database form
        wb = W.World.build(T.cfg, T.alpha, T.history)
        ob = wb.apply(twin(op))
        pb = wb.stored()
        if ob[:2] != T.outcome[:2] or pb != T.post:
            out.append(viol("handle-equals-db-form", sig + "|differs-from-db-form", observed=(T.outcome, T.post), expected=(ob, pb), detail=f"twin={twin(op)!r}"))
        wb.close()
        if not out and T.post_valid:
            out += [dict(v, kind="transition") for v in observers.index_equiv("C10", T.world.db, T.post, self.ivocab, counters, tag=f"|after-h.{op[0]}")]
        # other measurements untouched
        others_pre = [rp for rp in T.pre if rp[1] != name]
        if op[0] in ("remove", "h_remove_all", "update", "update_all"):
            changed = [rp for rp in others_pre if rp not in T.post]
            if changed:
                out.append(viol("other-measurements-untouched", sig + "|touches-other-measurement", observed=T.post, expected=exp))
        return out

    def _as_if_unfiltered(self, T):
        """Did a handle operation for the name '' behave exactly like the database operation without a filter?"""
        op = T.op
        k = op[0]
        if k == "insert":
            u = ("insert", op[1], None, False, "db")
        elif k == "insert_multiple":
            u = ("insert_multiple", op[1], None, False, "db")
        elif k == "remove":
            u = ("remove", op[1], None, "db")
        elif k == "update":
            u = ("update", op[1], op[2], None, "db")
        elif k == "update_all":
            u = ("update_all", op[1], "db")
        else:
            return False
        exp_u, out_u = W.ref_apply(u, T.pre, T.alpha)
        return T.outcome[:2] == out_u and T.post == exp_u

    def observe(self, w, stored, history, cfg, counters):
        db = w.db
        if cfg.get("ladder"):
            def tgt(m):
                h = w.handles.get(m)
                return h if h is not None else db.measurement(m)

            out = observers.read_battery("C10", db, stored, cfg, self.ladder_vocab(cfg["ladder"]), counters, filters=("big", "n", "zz"),
                                         select_filters=("big",), target=tgt)
            return out + observers.getter_battery("C10", db, stored, cfg, counters, filters=("big", "n", "zz"), handles=True)

        def target(m):
            h = w.handles.get(m)
            return h if h is not None else db.measurement(m)

        out = observers.read_battery("C10", db, stored, cfg, self.read_vocab, counters, filters=tuple(self.names), select_filters=tuple(self.names), target=target)
        out += observers.getter_battery("C10", db, stored, cfg, counters, filters=tuple(self.names), handles=True)
        return out


def make(tier, seed):
    return C10(tier, seed)
