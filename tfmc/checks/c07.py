"""C07 - exploration getters and lengths report exactly what is stored (DESIGN 4, C07)."""

from .. import ladder, observers, world as W
from .base import E1Check, closure_configs
from .c01 import std_ops


class C07(E1Check):
    prop = "C07"

    def rule(self):
        return (
            "BFS over histories of the standard alphabet plus points with a line break inside a tag value and with "
            "heterogeneous field sets; at every distinct state get_measurements, get_tag_keys/values (4 key selections), "
            "get_field_keys/values (3 keys), get_timestamps for measurement in {None,m,n,zz}, len, iteration, all(sorted/"
            "unsorted) and the same through each measurement handle are compared with the reference over the stored contents"
        )

    def bounds(self):
        return {"N": 3, "D": 4} if self.tier == "quick" else {"N": 4, "D": 5, "max_states": 40000}

    def configs(self):
        # the depth-bounded runs plus runs to the fixpoint within 2 stored points (histories of any length)
        extra = [] if self.tier == "quick" else closure_configs(("mem",))
        lad = ladder.configs(self.ladder_sizes(), storages=("mem", "csv"), autos=(True, False), D=2)
        return super().configs() + lad + extra

    def budget(self):
        return 600 if self.tier == "quick" else 1200

    def op_list(self, cfg):
        ops = std_ops(self.alpha, cfg, self.tier)
        extra = [("insert", "P7", None, False, "db"), ("insert", "P8", None, False, "db"),
                 # getters as transitions: whatever an earlier call may have cached must not go stale
                 ("getter", "get_field_values", "v", "m"), ("getter", "get_tag_keys", "n"), ("getter", "h.len", "m"), ("getter", "get_timestamps", "m"),
                 # a batch that fails part-way: the stored prefix must show up in every getter
                 ("bad_insert_multiple", ("P0", "P1"), 2, "int", "db"), ("bad_insert_multiple", ("P2", "P8"), 1, "str", "db")]
        have = set(ops)
        return [o for o in extra if o not in have] + ops

    def enabled(self, op, contents, cfg, history):
        if op[0] == "bad_insert_multiple" and len(contents) + len(op[1]) > cfg.get("N", self.bounds()["N"]):
            return False
        return super().enabled(op, contents, cfg, history)

    def observe(self, w, stored, history, cfg, counters):
        if any(len(rp[2]) and any(isinstance(v, str) and "\n" in v for v in rp[2].values()) for rp in stored):
            counters["states_with_linebreak_value"] += 1
        if len({rp[1] for rp in stored}) > 1:
            counters["states_with_two_measurements"] += 1
        if cfg.get("ladder"):
            return observers.getter_battery("C07", w.db, stored, cfg, counters, filters=(None, "big", "n"))
        return observers.getter_battery("C07", w.db, stored, cfg, counters)


def make(tier, seed):
    return C07(tier, seed)
