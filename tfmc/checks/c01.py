"""C01 - query results equal exactly the stored points that satisfy the query (DESIGN 4, C01)."""

from .. import qast, refmodel, world as W
from .base import E1Check, viol, CFG4


def same_multiset(a, b):
    if len(a) != len(b):
        return False
    b = list(b)
    for x in a:
        for i, y in enumerate(b):
            if x == y:
                del b[i]
                break
        else:
            return False
    return True


def std_ops(alpha, cfg, tier, with_reads=True):
    """The shared history alphabet (simplest first)."""
    t, x = alpha.t, alpha.x
    ops = []
    pts = ["P0", "P1", "P2", "P3", "P4"] + (["P5", "P7"] if tier == "thorough" else [])
    for p in pts:
        ops.append(("insert", p, None, False, "db"))
    ops.append(("insert_multiple", ("P1", "P4"), None, False, "db"))
    if tier == "thorough":
        ops.append(("insert", "P0", "n", True, "db"))
    sel_tag = ("cmp", "tags", ("a",), "==", x)
    sel_time = ("cmp", "time", (), "<", t[1])
    sel_time2 = ("cmp", "time", (), ">=", t[1])
    sel_notfield = ("not", ("cmp", "fields", ("v",), "==", 1))
    sel_meas = ("cmp", "measurement", (), "==", "m")
    ops += [
        ("remove", sel_tag, None, "db"),
        ("remove", sel_time, None, "db"),
        ("remove", sel_time2, "m", "db"),
        ("remove", sel_notfield, None, "db"),
        ("drop", "n"),
        ("remove_all",),
        ("update", sel_tag, W.mkspec(tags={"a": alpha.z}), None, "db"),
        ("update", sel_meas, W.mkspec(time=("fn", "t_swap")), None, "db"),
        ("update_all", W.mkspec(fields=("fn", "f_inc")), "db"),
        ("update", sel_time2, W.mkspec(measurement=("fn", "m_swap")), None, "db"),
        ("update", sel_time2, W.mkspec(unset_tags="a"), None, "db"),
        ("reindex",),
    ]
    if with_reads:
        ops.append(("count", ("cmp", "time", (), ">=", t[0]), None))
    if cfg["storage"] == "csv":
        ops.append(("reopen",))
        if with_reads:
            ops.append(("get", sel_tag, None))
    return ops


SELECT_KEYS = ["time", ("measurement", "tags.a", "fields.v"), "tags.zz"]


class C01(E1Check):
    prop = "C01"

    def __init__(self, tier, seed):
        super().__init__(tier, seed)
        self.vocab = self.alpha.vocabulary("quick" if tier == "quick" else "thorough")

    def rule(self):
        return (
            "BFS over all histories of the operation alphabet (<= N stored points, depth <= D) on four "
            "configurations; at every distinct state every query of the vocabulary x measurement filter "
            "{None,m,n,zz} is answered by search(sorted/unsorted), count, contains, get, select and compared "
            "with the reference evaluation over the state's own stored contents"
        )

    def bounds(self):
        return {"N": 3, "D": 4} if self.tier == "quick" else {"N": 4, "D": 5, "max_states": 40000}

    def budget(self):
        return 600 if self.tier == "quick" else 3 * 3600

    def op_list(self, cfg):
        return std_ops(self.alpha, cfg, self.tier)

    def coverage_extra(self, res):
        return {"queries_in_vocabulary": len(self.vocab)}

    # -- transition oracles: inserts append exactly the normalised point; reads as transitions --
    def transition(self, T, counters):
        out = []
        k = T.op[0]
        if k in ("insert", "insert_multiple"):
            exp, exp_out = T.ref()
            counters["insert_transitions"] += 1
            if T.pre and T.post and len(T.post) > len(T.pre) and T.post[-1][0] < max(p[0] for p in T.pre):
                counters["insert_out_of_order"] += 1
            if T.outcome[:2] != exp_out or T.post != exp:
                out.append(viol("insert-appends", f"C01|insert-contents|{k}|{T.cfg['name']}", observed=(T.outcome, T.post), expected=(exp_out, exp)))
        elif k in W.READ_OPS:
            exp, exp_out = T.ref()
            if T.outcome[:2] != exp_out:
                served = "index" if (T.cfg["auto_index"] or T.pre_valid) else "scan"
                out.append(viol("read-transition", f"C01|{served}|{k}|shape={qast.shape(T.op[1])}|filter={'y' if T.op[2] else 'n'}",
                                observed=T.outcome, expected=exp_out))
        return out

    # -- state observers --------------------------------------------------------------------
    def observe(self, w, stored, history, cfg, counters):
        out = []
        db = w.db
        seen_sig = set()

        def bad(oracle, served, readop, ast, m, observed, expected):
            sig = f"C01|{served}|{readop}|shape={qast.shape(ast)}|filter={'y' if m else 'n'}"
            if sig in seen_sig:
                return
            seen_sig.add(sig)
            out.append(viol(oracle, sig, observed=observed, expected=expected, probe=(readop, ast, m), kind="state"))

        def call(f, *a, **kw):
            try:
                return ("ret", f(*a, **kw))
            except Exception as e:  # noqa
                return ("exc", type(e).__name__, str(e)[:120])

        for m in (None, "m", "n", "zz"):
            margs = (m,) if m is not None else ()
            for ast in self.vocab:
                served = "index" if (cfg["auto_index"] or db.index.valid) else "scan"
                counters["reads_" + served] += 1
                exp_idx = refmodel.select(stored, refmodel.q_pred(ast), m)
                exp = [stored[i] for i in exp_idx]
                counters["nonempty_partial_answers"] += 1 if 0 < len(exp) < len(stored) else 0
                q = qast.build(ast)
                # search sorted
                r = call(db.search, q, *margs)
                if r[0] == "exc":
                    bad("search-raises", served, "search", ast, m, r, exp)
                else:
                    got = [refmodel.rp_of_point(p) for p in r[1]]
                    if not same_multiset(got, exp) or any(got[i][0] > got[i + 1][0] for i in range(len(got) - 1)):
                        bad("search-sorted", served, "search", ast, m, got, sorted(exp, key=lambda rp: rp[0]))
                # search unsorted
                r = call(db.search, qast.build(ast), *margs, sorted=False)
                if r[0] == "exc":
                    bad("search-raises", served, "search_unsorted", ast, m, r, exp)
                elif [refmodel.rp_of_point(p) for p in r[1]] != exp:
                    bad("search-insertion-order", served, "search_unsorted", ast, m, [refmodel.rp_of_point(p) for p in r[1]], exp)
                r = call(db.count, qast.build(ast), *margs)
                if r != ("ret", len(exp)):
                    bad("count", served, "count", ast, m, r, len(exp))
                r = call(db.contains, qast.build(ast), *margs)
                if r != ("ret", bool(exp)):
                    bad("contains", served, "contains", ast, m, r, bool(exp))
                r = call(db.get, qast.build(ast), *margs)
                e = exp[0] if exp else None
                if r[0] == "exc" or (None if r[1] is None else refmodel.rp_of_point(r[1])) != e:
                    bad("get-first", served, "get", ast, m, r if r[0] == "exc" else (None if r[1] is None else refmodel.rp_of_point(r[1])), e)
                if m in (None, "m"):
                    for keys in SELECT_KEYS:
                        r = call(db.select, keys, qast.build(ast), *margs)
                        e = refmodel.select_keys(stored, keys, ast, m)
                        if r != ("ret", e):
                            bad("select", served, "select", ast, m, r, e)
        counters["observer_reads"] += len(self.vocab) * 4 * 5 + len(self.vocab) * 2 * len(SELECT_KEYS)
        return out

    def recheck(self, rec):
        out = super().recheck(rec)
        return out


def make(tier, seed):
    return C01(tier, seed)
