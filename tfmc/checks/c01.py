"""C01 - query results equal exactly the stored points that satisfy the query (DESIGN 4, C01)."""

from .. import ladder, observers, qast, refmodel, world as W
from .base import E1Check, viol, closure_configs, wide_configs, option_configs, CFG4


def std_ops(alpha, cfg, tier, with_reads=True):
    """The shared history alphabet (simplest first)."""
    t, x = alpha.t, alpha.x
    ops = []
    pts = ["P0", "P1", "P2", "P3", "P4", "PU"] + (["P5", "P7"] if tier == "thorough" else [])
    for p in pts:
        ops.append(("insert", p, None, False, "db"))
    ops.append(("insert_multiple", ("P1", "P4"), None, False, "db"))
    if tier == "thorough":
        ops.append(("insert", "P0", "n", True, "db"))
    sel_tag = ("cmp", "tags", ("a",), "==", x)
    sel_time = ("cmp", "time", (), "<", t[1])
    sel_time2 = ("cmp", "time", (), ">=", t[1])
    sel_notfield = ("not", ("cmp", "fields", ("v",), "==", 1))
    sel_meas = ("cmp", "measurement", (), "==", "m")
    ops += [
        ("remove", sel_tag, None, "db"),
        ("remove", sel_time, None, "db"),
        ("remove", sel_time2, "m", "db"),
        ("remove", sel_notfield, None, "db"),
        ("remove", sel_notfield, "m", "db"),      # candidates-only query + measurement filter: scan branch with a live index
        ("drop", "n"),
        ("remove_all",),
        ("update", sel_tag, W.mkspec(tags={"a": alpha.z}), None, "db"),
        ("update", sel_meas, W.mkspec(time=("fn", "t_swap")), None, "db"),
        ("update_all", W.mkspec(fields=("fn", "f_inc")), "db"),
        ("update", sel_time2, W.mkspec(measurement=("fn", "m_swap")), None, "db"),
        ("update", sel_time2, W.mkspec(unset_tags="a"), None, "db"),
        ("reindex",),
    ]
    if with_reads:
        ops.append(("count", ("cmp", "time", (), ">=", t[0]), None))
    if cfg["storage"] == "csv":
        ops.append(("reopen",))
        if with_reads:
            ops.append(("get", sel_tag, None))
    return ops


class C01(E1Check):
    prop = "C01"

    def __init__(self, tier, seed):
        super().__init__(tier, seed)
        lvl = "quick" if tier == "quick" else "thorough"
        self.vocab = self.alpha.vocabulary(lvl)
        self.n_atoms2 = 2 * len(self.alpha.atoms(lvl))  # atoms and their negations come first

    def rule(self):
        return (
            "BFS over all histories of the operation alphabet (<= N stored points, depth <= D) on four "
            "configurations; at every distinct state every query of the vocabulary x measurement filter "
            "{None,m,n,zz} is answered by search(sorted/unsorted), count, contains, get, select and compared "
            "with the reference evaluation over the state's own stored contents"
        )

    def bounds(self):
        return {"N": 3, "D": 4} if self.tier == "quick" else {"N": 4, "D": 5, "max_states": 40000}

    def configs(self):
        # the depth-bounded runs plus runs to the fixpoint within 2 stored points (histories of any length)
        extra = [] if self.tier == "quick" else closure_configs(("mem", "csv"))
        cfgs = super().configs()
        if self.tier == "quick":
            for c in cfgs:  # quick: file-backed configurations one level shallower
                if c["storage"] == "csv":
                    c["D"] = 3
        # single operations on a database of six points (beyond the BFS bound N), in-order and shuffled storage
        wide = wide_configs(("mem", "csv"), D=1 if self.tier == "quick" else 2)
        # scale ladder: depth-2 histories on generated databases of 40 / 300 (/ 1300) points
        lad = ladder.configs(self.ladder_sizes(), storages=("mem", "csv"), autos=(True,), D=2, big_depth=1 if self.tier == "quick" else None)
        lad += ladder.configs(self.ladder_sizes()[:1], storages=("csv",), autos=(False,), D=2)
        return cfgs + option_configs(self.tier) + wide + lad + extra

    def budget(self):
        return 600 if self.tier == "quick" else 1200

    def op_list(self, cfg):
        return std_ops(self.alpha, cfg, self.tier)

    def coverage_extra(self, res):
        return {"queries_in_vocabulary": len(self.vocab)}

    # -- transition oracles: inserts append exactly the normalised point; reads as transitions --
    def transition(self, T, counters):
        out = []
        k = T.op[0]
        if k in ("insert", "insert_multiple"):
            exp, exp_out = T.ref()
            counters["insert_transitions"] += 1
            if T.pre and T.post and len(T.post) > len(T.pre) and T.post[-1][0] < max(p[0] for p in T.pre):
                counters["insert_out_of_order"] += 1
            if T.outcome[:2] != exp_out or T.post != exp:
                out.append(viol("insert-appends", f"C01|insert-contents|{k}|{T.cfg['name']}", observed=(T.outcome, T.post), expected=(exp_out, exp)))
        elif k in W.READ_OPS:
            exp, exp_out = T.ref()
            if T.outcome[:2] != exp_out:
                served = "index" if (T.cfg["auto_index"] or T.pre_valid) else "scan"
                has_q = len(T.op) > 2 and isinstance(T.op[1], tuple) and T.op[1] and T.op[1][0] in ("cmp", "exists", "regex", "test", "noop", "not", "and", "or")
                shp = qast.shape(T.op[1]) if has_q else "-"
                flt = "y" if (has_q and T.op[2]) else "n"
                out.append(viol("read-transition", f"C01|{served}|{k}|shape={shp}|filter={flt}", observed=T.outcome, expected=exp_out))
        return out

    # -- state observers --------------------------------------------------------------------
    def observe(self, w, stored, history, cfg, counters):
        if cfg.get("ladder"):
            counters["ladder_states_observed"] += 1
            return observers.read_battery("C01", w.db, stored, cfg, self.ladder_vocab(cfg["ladder"]), counters,
                                          filters=(None, "big"), select_filters=(None,))
        quick = self.tier == "quick"
        return observers.read_battery(
            "C01", w.db, stored, cfg, self.vocab, counters,
            reduced=(("n", "zz"), self.n_atoms2) if quick else None,
            select_filters=(None,) if quick else (None, "m"),
        )


def make(tier, seed):
    return C01(tier, seed)
