"""C11 - an operation that raises leaves the database as it was, and still usable (DESIGN 4, C11)."""

from .. import observers, qast, world as W
from .base import E1Check, viol, closure_configs
from .c01 import std_ops


def wide_fault_ops(alpha, tier):
    x, t = alpha.x, alpha.t
    sel = ("cmp", "tags", ("a",), "==", x)
    selm = ("cmp", "measurement", (), "==", "m")
    F = []
    for wid in ("int", "str", "None", "dict"):
        F.append(("bad_insert", wid, "db"))
    F.append(("bad_insert", "int", "h:m"))
    for pos in (0, 1, 2):
        F.append(("bad_insert_multiple", ("P0", "P1"), pos, "int", "db"))
    F.append(("bad_insert_multiple", ("P1", "P4"), 1, "str", "db"))      # out-of-order prefix
    F.append(("bad_insert_multiple", ("P2", "P0"), 1, "None", "h:n"))
    F.append(("bad_insert_multiple", ("P0", "P1"), 1, "genraise", "db"))  # the iterable itself raises (not a TypeError)
    F.append(("bad_insert_multiple", ("P1", "P3"), 2, "genraise", "db"))
    for attr, pre in (("time", None), ("measurement", None), ("tags", None), ("fields", None), ("tags", "time"),
                      ("fields", "tags"), ("fields", "measurement"), ("measurement", "time")):
        for nth in (1, 2, 3):
            F.append(("update_raise", None, attr, nth, pre, None, "db"))
        F.append(("update_raise", sel, attr, 1, pre, None, "db"))
        F.append(("update_raise", selm, attr, 2, pre, "m", "db"))
    F.append(("update_raise", None, "tags", -1, None, None, "db"))        # a BaseException (interrupt) instead of an Exception
    F.append(("update_raise", sel, "fields", -1, "time", None, "db"))
    F.append(("update_raise", None, "tags", 1, "time", None, "h:m"))
    F.append(("update_raise", sel, "fields", 1, None, None, "h:m"))
    for attr, pre in (("time", None), ("measurement", None), ("tags", None), ("fields", None), ("fields", "tags"), ("tags", "time")):
        F.append(("update_badret", None, attr, pre, None, "db"))
        F.append(("update_badret", sel, attr, pre, None, "db"))
    F.append(("update_badret", None, "fields", "tags", None, "h:m"))
    # a user function inside the *query* raises (on the tag value y; points before it in storage order have matched)
    for call in ("update", "remove", "count", "contains", "get", "search", "select"):
        F.append(("query_raise", call, alpha.y, None, "db"))
    F.append(("query_raise", "update", alpha.y, "m", "db"))
    F.append(("query_raise", "update", alpha.y, None, "h:m"))
    F.append(("query_raise", "remove", alpha.y, "m", "db"))
    F.append(("query_raise", "remove", alpha.y, None, "h:m"))
    F.append(("query_raise", "update", alpha.x, None, "db"))
    for kind in ("update-no-attr", "update-non-query", "update-bad-unset", "update-bad-static-tags", "update-bad-static-time",
                 "select-bad-keys", "select-non-iterable", "search-non-query", "update_all-no-attr", "h.update-bad-fields"):
        F.append(("bad_args", kind))
    return F


class C11(E1Check):
    prop = "C11"

    def __init__(self, tier, seed):
        super().__init__(tier, seed)
        lvl = "quick" if tier == "quick" else "thorough"
        atoms = self.alpha.atoms(lvl)
        self.vocab = [a for a in atoms if a[0] in ("cmp", "exists")][::2] + [("not", a) for a in atoms[::6]]
        self.ivocab = atoms[::2]
        self.faults = wide_fault_ops(self.alpha, tier)
        self.fault_set = set(self.faults)
        # faults that are BFS edges (their successors are explored further); the rest are probes
        keep = [f for f in self.faults if f[0] != "bad_args"]
        self.edge_faults = set(keep[:: 4 if tier == "quick" else 2]) | {("bad_args", "update-no-attr")}

    def rule(self):
        return (
            "BFS over histories of the standard alphabet; at every state every faulting call is executed: insert of a "
            "non-Point (4 kinds), insert_multiple with the non-Point at every position, update/update_all whose "
            "time|measurement|tags|fields callable raises on its k-th invocation (k=1..3) or returns an invalid value, "
            "each also preceded by a successful attribute in the same call, a user test function inside the QUERY that raises on "
            "one tag value (update, remove and every read entry point; scoped, global, through a handle), invalid argument sets, "
            "handle variants. "
            "Oracle: stored contents equal the reference (unchanged; insert_multiple: plus the prefix), a valid index "
            "equals a rebuild; a subset of the faults are BFS edges so that every later operation and the read/getter "
            "batteries run on states reached through a fault"
        )

    def bounds(self):
        return {"N": 3, "D": 4} if self.tier == "quick" else {"N": 4, "D": 5, "max_states": 40000}

    def configs(self):
        # the depth-bounded runs plus runs to the fixpoint within 2 stored points (histories of any length)
        extra = [] if self.tier == "quick" else closure_configs(("mem",))
        return super().configs() + extra

    def budget(self):
        return 600 if self.tier == "quick" else 1200

    def op_list(self, cfg):
        return std_ops(self.alpha, cfg, self.tier) + self.faults

    def is_std_probe(self, op):
        return op in self.fault_set and op not in self.edge_faults

    def enabled(self, op, contents, cfg, history):
        if not super().enabled(op, contents, cfg, history):
            return False
        if op[0] == "bad_insert_multiple" and len(contents) + len(op[1]) > cfg.get("N", self.bounds()["N"]):
            return False
        if op[0] in ("update_raise", "query_raise") and not W.fault_enabled(op, contents):
            return False
        if op[0] == "update_badret":
            return W.ref_apply(op, contents, self.alpha)[1] == ("exc",)
        return True

    def coverage_extra(self, res):
        return {"fault_ops_per_state": len(self.faults), "fault_ops_as_bfs_edges": len(self.edge_faults)}

    def transition(self, T, counters):
        out = []
        if T.op not in self.fault_set:
            return out
        k = T.op[0]
        counters["fault_transitions"] += 1
        exp, exp_out = T.ref()
        sig = f"C11|{k}|{self._detail(T.op)}|{T.cfg['storage']}|{'auto' if T.cfg['auto_index'] else 'manual'}"
        if T.outcome[0] != "exc" and k == "query_raise" and T.op[1] in ("get", "contains"):
            # these may stop at a match stored in front of the point on which the user's function raises
            counters["query_raise_not_reached"] += 1
        elif T.outcome[0] != "exc":
            counters["fault_did_not_raise"] += 1
            out.append(viol("raises", sig + "|did-not-raise", observed=T.outcome, expected="an exception"))
            return out
        if T.post != exp:
            out.append(viol("contents-as-before", sig + "|contents-changed", observed=T.post, expected=exp, detail=f"pre={T.pre!r}"))
        elif T.post_valid:
            out += [dict(v, kind="transition") for v in observers.index_equiv("C11", T.world.db, T.post, self.ivocab, counters, tag="|after-" + k)]
        return out

    def _detail(self, op):
        k = op[0]
        if k == "bad_insert":
            return f"{op[1]}|via={'db' if op[2] == 'db' else 'handle'}"
        if k == "bad_insert_multiple":
            return f"pos={op[2]}"
        if k == "update_raise":
            return f"attr={op[2]}|nth={'interrupt' if op[3] < 0 else ('1' if op[3] == 1 else '>1')}|pre={op[4]}|{'all' if op[1] is None else 'query'}"
        if k == "update_badret":
            return f"attr={op[2]}|pre={op[3]}"
        if k == "query_raise":
            return f"{op[1]}|scope={'all' if op[3] is None and op[4] == 'db' else 'measurement'}|via={'db' if op[4] == 'db' else 'handle'}"
        return op[1]

    def observe(self, w, stored, history, cfg, counters):
        if not any(op in self.fault_set for op in history):
            return []
        counters["states_after_fault_observed"] += 1
        out = observers.read_battery("C11", w.db, stored, cfg, self.vocab, counters, filters=(None, "m"), select_filters=())
        out += observers.getter_battery("C11", w.db, stored, cfg, counters, filters=(None, "m"), handles=False)
        out += observers.index_equiv("C11", w.db, stored, self.ivocab, counters)
        return out


def make(tier, seed):
    return C11(tier, seed)
