"""C02 - remove deletes exactly the matching points and nothing else (DESIGN 4, C02)."""

from .. import ladder, observers, qast, world as W
from .base import E1Check, viol, buffered_writes_off, wide_configs, option_configs, CFG4
from .c01 import std_ops

REMOVE_OPS = ("remove", "drop", "h_remove_all", "remove_all")


class C02(E1Check):
    prop = "C02"

    def __init__(self, tier, seed):
        super().__init__(tier, seed)
        lvl = "quick" if tier == "quick" else "thorough"
        A = self.alpha
        atoms = A.atoms(lvl)
        self.selectors = self.alpha.vocabulary(lvl)
        if tier == "quick":
            # atoms, negations, and the compound part over the representatives
            self.selectors = self.selectors[: 2 * len(atoms) + 60]
        # observer vocabulary for "every later read": time / tag / measurement atoms and negations
        self.after_vocab = [a for a in atoms if a[0] != "noop" and a[1] in ("time", "tags", "measurement") or a[0] == "regex"]
        self.after_vocab = self.after_vocab + [("not", a) for a in self.after_vocab[::3]]
        self._probes = None
        self.ivocab = [a for a in atoms if a[0] in ("cmp", "exists")][::3]

    def worker_init(self):
        super().worker_init()
        self.probes()  # the probe tables must exist whichever configuration a worker sees first

    def rule(self):
        return (
            "BFS over histories of the standard alphabet; at every state every removal selector (vocabulary "
            "atom, negation, compound) x measurement filter {None,m,n,zz} x call form (db.remove, handle.remove, "
            "drop_measurement, handle.remove_all, remove_all) is executed as a probe transition on a fresh replica "
            "and the returned count and the surviving contents are compared with the reference; states whose "
            "history contains a removal get the read and getter batteries"
        )

    def bounds(self):
        return {"N": 3, "D": 4} if self.tier == "quick" else {"N": 4, "D": 5, "max_states": 30000}

    def configs(self):
        cfgs = super().configs()
        if self.tier == "quick":
            for c in cfgs:  # quick: file-backed configurations one level shallower
                c["D"] = 4 if c["storage"] == "mem" else 3
        lad = ladder.configs(self.ladder_sizes(), storages=("mem", "csv"), autos=(True,), D=2, big_depth=1 if self.tier == "quick" else None)
        lad += ladder.configs(self.ladder_sizes()[:1], storages=("csv",), autos=(False,), D=2)
        return cfgs + option_configs(self.tier) + wide_configs(("mem", "csv"), D=1 if self.tier == "quick" else 2) + lad

    def budget(self):
        return 600 if self.tier == "quick" else 1200

    def probes(self):
        if self._probes is None:
            P = []
            for m in (None, "m", "n", "zz"):
                for ast in self.selectors:
                    P.append(("remove", ast, m, "db"))
            for ast in self.selectors[:: 5 if self.tier == "quick" else 1]:
                P.append(("remove", ast, None, "h:m"))
                P.append(("remove", ast, None, "h:zz"))
            P += [("drop", "m"), ("drop", "zz"), ("h_remove_all", "m"), ("h_remove_all", "n"), ("h_remove_all", "zz")]
            self._probes = P
            # what is a probe must not depend on which configuration a worker happens to see first (replay fidelity)
            self._probe_set = set(P) - {op for c in CFG4 for op in std_ops(self.alpha, c, self.tier)}
        return self._probes

    def op_list(self, cfg):
        self.probes()
        base = std_ops(self.alpha, cfg, self.tier)
        return base + [p for p in self._probes if p in self._probe_set]

    def ladder_op_list(self, cfg):
        n = cfg["ladder"]
        base = ladder.ops(self.alpha, cfg)
        extra = [("remove", q, m, "db") for q in self.ladder_vocab(n) for m in (None, "big")]
        extra += [("remove", self.ladder_vocab(n)[3], None, "h:big"), ("drop", "big"), ("h_remove_all", "m")]
        have = set(base)
        self._lp[cfg["name"]] = {e for e in extra if e not in have}
        return base + [e for e in extra if e not in have]

    def is_std_probe(self, op):
        return op in self._probe_set

    def coverage_extra(self, res):
        return {"removal_probes_per_state": len(self.probes())}

    def transition(self, T, counters):
        out = []
        k = T.op[0]
        if k not in REMOVE_OPS:
            return out
        exp, exp_out = T.ref()
        served = "index" if (T.cfg["auto_index"] or T.pre_valid) else "scan"
        nsel = len(T.pre) - len(exp)
        counters["remove_none" if nsel == 0 else ("remove_all_points" if not exp else "remove_partial")] += 1
        if k == "remove":
            shp = f"shape={qast.shape(T.op[1])}|filter={'y' if (T.op[2] or T.op[3] != 'db') else 'n'}|via={'db' if T.op[3] == 'db' else 'handle'}"
        else:
            shp = "shape=-"
        sig = f"C02|{served}|{k}|{shp}"
        if T.outcome[0] == "exc":
            out.append(viol("remove-raises", sig + "|raises", observed=T.outcome, expected=exp_out))
            return out
        if T.post != exp:
            lost = [p for p in exp if p not in T.post]
            extra = len(T.post) > len(exp)
            what = "over-removal" if lost else ("under-removal" if extra else "reordered-or-modified")
            out.append(viol("remove-contents", sig + "|" + what, observed=T.post, expected=exp, detail=f"pre={T.pre!r}"))
        if T.outcome[:2] != exp_out:
            out.append(viol("remove-count", sig + "|count", observed=T.outcome, expected=exp_out))
        if nsel == 0 and T.pre_bytes is not None and buffered_writes_off(T.cfg) and T.pre_bytes != T.post_bytes:
            out.append(viol("noop-remove-bytes", sig + "|noop-changes-file", observed=T.post_bytes, expected=T.pre_bytes))
        if not out and T.post_valid and self.is_probe(T.op, T.cfg):
            # the successor of a probe is not explored further: at least its index must equal a rebuild
            out += [dict(v, kind="transition") for v in observers.index_equiv("C02", T.world.db, T.post, self.ivocab, counters, tag=f"|after-{k}")]
        return out

    def observe(self, w, stored, history, cfg, counters):
        if not any(op[0] in REMOVE_OPS for op in history):
            return []
        counters["states_after_removal_observed"] += 1
        if cfg.get("ladder"):
            out = observers.read_battery("C02", w.db, stored, cfg, self.ladder_vocab(cfg["ladder"]), counters, filters=(None, "big"), select_filters=())
            return out + observers.getter_battery("C02", w.db, stored, cfg, counters, filters=(None, "big"), handles=False)
        out = observers.read_battery("C02", w.db, stored, cfg, self.after_vocab, counters,
                                     filters=(None, "m"), select_filters=())
        out += observers.getter_battery("C02", w.db, stored, cfg, counters, filters=(None, "m", "n"))
        return out


def make(tier, seed):
    return C02(tier, seed)
