"""C03 - update changes exactly the matching points, with documented merge semantics (DESIGN 4, C03)."""

from .. import ladder, observers, qast, world as W
from .base import E1Check, viol, buffered_writes_off, option_configs, CFG4
from .c01 import std_ops

UPDATE_OPS = ("update", "update_all")


def alphabet_tz():
    import datetime as _dt

    return _dt.timezone(_dt.timedelta(hours=-8))


def update_specs(alpha):
    t, x, z, q = alpha.t, alpha.x, alpha.z, alpha.q
    S = [
        ("time-static", W.mkspec(time=t[0])),
        ("time-fn", W.mkspec(time=("fn", "t_swap"))),
        ("time-fn-non-utc-zone", W.mkspec(time=("fn", "t_swap_offset"))),
        ("time-static-non-utc-zone", W.mkspec(time=t[0].astimezone(alphabet_tz()))),
        ("meas-static", W.mkspec(measurement="n")),
        ("meas-fn", W.mkspec(measurement=("fn", "m_swap"))),
        ("tags-static", W.mkspec(tags={"a": z})),
        ("tags-fn", W.mkspec(tags=("fn", "tags_az"))),
        ("tags-newkey", W.mkspec(tags={"b": q})),
        ("tags-same", W.mkspec(tags={"a": x})),
        ("tags-fn-dep", W.mkspec(tags=("fn", "tags_copy_b"))),
        ("fields-static", W.mkspec(fields={"v": 5})),
        ("fields-fn", W.mkspec(fields=("fn", "f_inc"))),
        ("fields-fn-const", W.mkspec(fields=("fn", "f_w9"))),
        ("fields-static-w9", W.mkspec(fields={"w": 9})),
        ("fields-none", W.mkspec(fields={"v": None})),
        ("unset-tag", W.mkspec(unset_tags="a")),
        ("unset-fields", W.mkspec(unset_fields=["v", "w"])),
        ("unset-tags-oneshot-iterator", W.mkspec(unset_tags=("it", ("a",)))),
        ("unset-fields-oneshot-iterator", W.mkspec(unset_fields=("it", ("v", "w")))),
        ("set-and-unset", W.mkspec(tags={"a": z}, unset_tags="a")),
        ("set-and-unset-field", W.mkspec(fields={"w": 9}, unset_fields=["w"])),
        ("time+fields", W.mkspec(time=t[3], fields={"w": 9})),
        ("meas+unset", W.mkspec(measurement="n", unset_fields="v")),
        ("tags+fields-fn", W.mkspec(tags=("fn", "tags_az"), fields=("fn", "f_inc"))),
    ]
    return S


class C03(E1Check):
    prop = "C03"

    def __init__(self, tier, seed):
        super().__init__(tier, seed)
        A = self.alpha
        t, x = A.t, A.x
        self.specs = update_specs(A)
        self.spec_name = {s: n for n, s in self.specs}
        self.selectors = [
            ("cmp", "tags", ("a",), "==", x),
            ("cmp", "time", (), "<=", t[1]),
            ("cmp", "measurement", (), "==", "m"),
            ("cmp", "fields", ("v",), ">", 0),
            ("not", ("cmp", "fields", ("v",), "==", 1)),
            ("not", ("cmp", "tags", ("a",), "==", x)),
            ("test", "fields", ("v",), "is_even", ()),
            ("exists", "fields", ("w",)),
            ("and", ("cmp", "time", (), ">=", t[1]), ("cmp", "measurement", (), "==", "m")),
            ("or", ("cmp", "tags", ("a",), "==", None), ("cmp", "fields", ("w",), "==", 1)),
            ("noop", "tags"),
            ("cmp", "fields", ("v", ("map", "plus_one")), "==", 2),
            ("cmp", "time", (), ">", A.thigh),
        ]
        if tier != "quick":
            self.selectors += A.representatives(12) + [("not", r) for r in A.representatives(12)]
            seen, sel = set(), []
            for s in self.selectors:
                if s not in seen:
                    seen.add(s)
                    sel.append(s)
            self.selectors = sel
        self._probes = None
        self.ivocab = [a for a in A.atoms("quick") if a[0] in ("cmp", "exists")][::3]

    def worker_init(self):
        super().worker_init()
        self.probes()  # the probe tables must exist whichever configuration a worker sees first

    def rule(self):
        return (
            "BFS over histories of the standard alphabet; at every state every update form (static and callable; "
            "time, measurement, tags, fields, unset_*, combinations) x selector x measurement scope {None,m,zz}, "
            "update_all and handle variants are executed as probe transitions on a fresh replica; the stored "
            "contents after the call are compared position by position with the reference and the return value "
            "with the number of changed points"
        )

    def bounds(self):
        return {"N": 3, "D": 4} if self.tier == "quick" else {"N": 4, "D": 5, "max_states": 30000}

    def configs(self):
        cfgs = super().configs()
        if self.tier == "quick":
            for c in cfgs:  # quick: file-backed configurations one level shallower
                c["D"] = 4 if c["name"] == "mem/auto" else 3
        lad = ladder.configs(self.ladder_sizes(), storages=("mem", "csv"), autos=(True,), D=2, big_depth=1 if self.tier == "quick" else None)
        lad += ladder.configs(self.ladder_sizes()[:1], storages=("csv",), autos=(False,), D=2)
        return cfgs + option_configs(self.tier) + lad

    def budget(self):
        return 600 if self.tier == "quick" else 1200

    def probes(self):
        if self._probes is None:
            P = []
            for _, spec in self.specs:
                for ast in self.selectors:
                    for m in (None, "m", "zz"):
                        P.append(("update", ast, spec, m, "db"))
                    P.append(("update", ast, spec, None, "h:m"))
                P.append(("update_all", spec, "db"))
                P.append(("update_all", spec, "h:m"))
                P.append(("update_all", spec, "h:zz"))
            self._probes = P
            # what is a probe must not depend on which configuration a worker happens to see first (replay fidelity)
            self._probe_set = set(P) - {op for c in CFG4 for op in self._base(c)}
        return self._probes

    def _base(self, cfg):
        base = std_ops(self.alpha, cfg, self.tier)
        # static mappings that reach points with empty tag / field sets, and a later update of only one of them
        base += [("insert", "P9", None, False, "db"),
                 ("update_all", W.mkspec(tags={"b": self.alpha.q}), "db"),
                 ("update", ("cmp", "measurement", (), "==", "n"), W.mkspec(tags={"b": self.alpha.y}, fields={"w": 9}), None, "db")]
        return base

    def op_list(self, cfg):
        self.probes()
        return self._base(cfg) + [p for p in self._probes if p in self._probe_set]

    def ladder_op_list(self, cfg):
        n = cfg["ladder"]
        base = ladder.ops(self.alpha, cfg)
        forms = [sp for name, sp in self.specs if name in ("time-fn", "meas-static", "tags-static", "fields-fn", "unset-tag", "tags+fields-fn", "fields-static-w9")]
        extra = [("update", q, sp, m, "db") for q in self.ladder_vocab(n)[:12] for sp in forms for m in (None, "big")]
        extra += [("update_all", sp, "h:big") for sp in forms]
        have = set(base)
        self._lp[cfg["name"]] = {e for e in extra if e not in have}
        return base + [e for e in extra if e not in have]

    def is_std_probe(self, op):
        return op in self._probe_set

    def coverage_extra(self, res):
        return {"update_probes_per_state": len(self.probes()), "update_forms": [n for n, _ in self.specs]}

    def transition(self, T, counters):
        out = []
        k = T.op[0]
        if k not in UPDATE_OPS:
            return out
        exp, exp_out = T.ref()
        served = "index" if (T.cfg["auto_index"] or T.pre_valid) and k == "update" else "scan"
        nchg = exp_out[1]
        counters["update_none" if nchg == 0 else ("update_all_points" if nchg == len(T.pre) else "update_some")] += 1
        spec = T.op[2] if k == "update" else T.op[1]
        form = self.spec_name.get(spec, "+".join(kv[0] for kv in spec))
        if k == "update":
            shp = f"shape={qast.shape(T.op[1])}|scope={'y' if (T.op[3] or T.op[4] != 'db') else 'n'}|via={'db' if T.op[4] == 'db' else 'handle'}"
        else:
            shp = f"via={'db' if T.op[2] == 'db' else 'handle'}"
        sig = f"C03|{served}|{k}|form={form}|{shp}"
        if T.outcome[0] == "exc":
            out.append(viol("update-raises", sig + "|raises", observed=T.outcome, expected=exp_out))
            return out
        if T.post != exp:
            if len(T.post) != len(exp):
                what = "points-lost-or-added"
            else:
                wrong = [i for i in range(len(exp)) if T.post[i] != exp[i]]
                untouched_hit = [i for i in wrong if exp[i] == T.pre[i]]
                what = "non-matching-point-changed" if untouched_hit else "wrong-new-value"
            out.append(viol("update-contents", sig + "|" + what, observed=T.post, expected=exp, detail=f"pre={T.pre!r}"))
        if T.outcome[:2] != exp_out:
            out.append(viol("update-count", sig + "|count", observed=T.outcome, expected=exp_out))
        if nchg == 0 and T.pre_bytes is not None and buffered_writes_off(T.cfg) and T.pre_bytes != T.post_bytes:
            out.append(viol("noop-update-bytes", sig + "|noop-changes-file", observed=T.post_bytes, expected=T.pre_bytes))
        if not out and T.post_valid and self.is_probe(T.op, T.cfg) and (nchg or T.outcome[:2] != ("ret", 0)):
            out += [dict(v, kind="transition") for v in observers.index_equiv("C03", T.world.db, T.post, self.ivocab, counters, tag=f"|after-{k}")]
        return out


def make(tier, seed):
    return C03(tier, seed)
