"""C18 - sorted-list search helpers return the documented boundary positions (DESIGN 4, C18)."""

import itertools
import math

from .. import common, univ
from .base import viol

HELPERS = ("find_eq", "find_lt", "find_le", "find_gt", "find_ge")


def ref(name, lst, x):
    """Linear-scan definitions taken from the property statement."""
    idx = range(len(lst))
    if name == "find_eq":
        c = [i for i in idx if lst[i] == x]
        return c[0] if c else None
    if name == "find_lt":
        c = [i for i in idx if lst[i] < x]
        return c[-1] if c else None
    if name == "find_le":
        c = [i for i in idx if lst[i] <= x]
        return c[-1] if c else None
    if name == "find_gt":
        c = [i for i in idx if lst[i] > x]
        return c[0] if c else None
    if name == "find_ge":
        c = [i for i in idx if lst[i] >= x]
        return c[0] if c else None
    raise ValueError(name)


def domains():
    ts = 1622548800.0
    ulp = math.ulp(ts)
    return [
        ("int5", [0, 1, 2, 3, 4], [-1, 0, 0.5, 1, 1.5, 2, 2.5, 3, 3.5, 4, 5]),
        ("float-ulp", [ts - 2 * ulp, ts - ulp, ts, ts + ulp, ts + 2 * ulp],
         [ts - 3 * ulp, ts - 2 * ulp, ts - ulp, ts, ts + ulp, ts + 2 * ulp, ts + 3 * ulp, ts - 1, ts + 1, 0.0, 1e300]),
        ("float-edge", [-math.inf, -0.0, 5e-324, 1.0, math.inf],
         [-math.inf, -1.0, -0.0, 0.0, 5e-324, 1e-323, 0.5, 1.0, 2.0, math.inf, -5e-324]),
    ]


class C18(univ.UnivCheck):
    prop = "C18"

    def __init__(self, tier, seed):
        super().__init__(tier, seed)
        self.cases = []
        maxlen = 7 if tier == "quick" else 8
        for dname, dom, probes in domains():
            for n in range(0, maxlen + 1):
                for combo in itertools.combinations_with_replacement(range(len(dom)), n):
                    self.cases.append((dname, combo))
        self.doms = {d[0]: d for d in domains()}

    def rule(self):
        return ("all sorted lists (multisets) of length 0..7 (thorough: 0..8) over three 5-value domains (ints; floats one "
                "ulp apart around a POSIX timestamp; -inf/-0.0/subnormal/1.0/inf) x 11 probes (each value, each gap, below, "
                "above) x 5 helpers against linear-scan definitions; distinct_nontrivial counts (list, probe) pairs with a "
                "non-empty list that contains duplicates or where the probe equals an element")

    def universe_size(self):
        return len(self.cases)

    def run_range(self, lo, hi):
        import collections

        from tinyflux import utils

        fns = {h: getattr(utils, h) for h in HELPERS}
        out, c, smp = [], collections.Counter(), []
        for dname, combo in self.cases[lo:hi]:
            _, dom, probes = self.doms[dname]
            lst = [dom[i] for i in combo]
            for x in probes:
                if lst and (len(set(combo)) < len(combo) or x in lst):
                    c["__distinct_nontrivial"] += 1
                for h in HELPERS:
                    c["evaluations"] += 1
                    try:
                        got = ("ret", fns[h](list(lst), x))
                    except Exception as e:  # noqa
                        got = ("exc", type(e).__name__)
                    exp = ("ret", ref(h, lst, x))
                    c["outcome_none" if exp[1] is None else "outcome_pos"] += 1
                    if got != exp:
                        out.append(viol("helper-position", f"C18|{h}|domain={dname}|{'dup' if len(set(combo)) < len(combo) else 'nodup'}",
                                        observed=got, expected=exp, kind="input") | {"input": (h, lst, x)})
            if len(smp) < 2 and len(lst) == 4:
                smp.append({"list": [repr(v) for v in lst], "probes": [repr(p) for p in probes]})
        out += self.history_pass(lo, hi, fns, c)
        return out, c, smp

    def history_pass(self, lo, hi, fns, c):
        """The helpers are functions of (list contents, probe) only: the same shard again in probe-major order.

        For each helper and probe all lists of the shard are visited consecutively - first as fresh list objects
        (a freed list's address is normally reused by the next one), then as ONE list object mutated in place - so
        that an answer remembered from an earlier call on a list of the same identity / length would be exposed.
        """
        out = []
        by_dom = {}
        for dname, combo in self.cases[lo:hi]:
            by_dom.setdefault(dname, []).append(combo)
        for dname, combos in by_dom.items():
            _, dom, probes = self.doms[dname]
            for h in HELPERS:
                f = fns[h]
                for x in probes:
                    shared = []
                    for mode in ("fresh", "in-place"):  # each mode as its own uninterrupted run of calls
                        for combo in combos:
                            vals = [dom[i] for i in combo]
                            exp = ("ret", ref(h, vals, x))
                            if mode == "fresh":
                                arg = list(vals)
                            else:
                                shared[:] = vals
                                arg = shared
                            c["evaluations"] += 1
                            try:
                                got = ("ret", f(arg, x))
                            except Exception as e:  # noqa
                                got = ("exc", type(e).__name__)
                            if got != exp:
                                out.append(viol("helper-position", f"C18|{h}|domain={dname}|depends-on-call-history:{mode}",
                                                observed=got, expected=exp, kind="input") | {"input": (h, vals, x)})
        return out

    def recheck(self, rec):
        from tinyflux import utils

        if "depends-on-call-history" in rec["signature"]:
            # history-dependent answers need the preceding calls: re-run the whole (small) universe
            self.worker_init()
            out, _, _ = self.run_range(0, len(self.cases))
            return [v for v in out if v["signature"] == rec["signature"]][:1]
        h, lst, x = rec["input"]
        try:
            got = ("ret", getattr(utils, h)(list(lst), x))
        except Exception as e:  # noqa
            got = ("exc", type(e).__name__)
        exp = ("ret", ref(h, lst, x))
        if got != exp:
            return [viol("helper-position", rec["signature"], observed=got, expected=exp)]
        return []


def make(tier, seed):
    return C18(tier, seed)
