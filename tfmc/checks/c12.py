"""C12 - a crash at any I/O step leaves the file holding the old or the new contents (DESIGN 4, C12).

For every operation of every explored history the raw-I/O seam records the steps and a crash image
(bytes of the database file as an independent reader sees them) at every step boundary; every
distinct image is recovered by a fresh TinyFlux and compared with the contents before / after the
operation.  A set of boundaries is re-validated by really killing a child process there.
"""

import collections
import os

from .. import common, ladder, refmodel, world as W
from ..ioseam import SEAM, Plan
from .base import E1Check, viol


def crash_ops(alpha, tier):
    x, t = alpha.x, alpha.t
    ops = [
        ("insert", "P0", None, False, "db"),
        ("insert", "P1", None, False, "db"),
        ("insert", "P4", None, False, "db"),                    # out of order after P1
        ("insert_multiple", ("P2", "P3"), None, False, "db"),
        ("remove", ("cmp", "tags", ("a",), "==", x), None, "db"),            # partial / full / no-match depending on state
        ("remove", ("cmp", "time", (), ">=", t[1]), None, "db"),
        ("update", ("cmp", "measurement", (), "==", "m"), W.mkspec(tags={"a": alpha.z}), None, "db"),
        ("update_all", W.mkspec(fields=("fn", "f_inc")), "db"),
        ("update", ("cmp", "tags", ("a",), "==", alpha.z), W.mkspec(tags={"a": alpha.z}), None, "db"),  # no change
        ("remove_all",),
        ("drop", "n"),
        ("get", ("cmp", "tags", ("a",), "==", x), None),                     # early-stopping read
        ("len",),                                                            # would populate a length cache
        ("reopen",),                                                         # close (its I/O can fail too) + open
        ("reopen", "with"),                                                  # the same through the context manager
    ]
    if tier != "quick":
        ops += [
            ("insert", "P7", None, True, "db"),                 # compact prefixes, line break in a value
            ("insert_multiple", ("P0", "P4", "P5"), None, False, "db"),
            ("update", ("cmp", "time", (), "<=", t[1]), W.mkspec(time=("fn", "t_swap")), None, "db"),
        ]
    return ops


def recover(image):
    """Open a crash image with a fresh TinyFlux; returns ("ok", contents) or ("exc", text)."""
    from tinyflux import TinyFlux

    path = os.path.join(common.db_dir(), "crash-image.csv")
    with open(path, "wb") as f:
        f.write(image)
    try:
        db = TinyFlux(path)
        try:
            return ("ok", [refmodel.rp_of_point(p) for p in db.all(sorted=False)])
        finally:
            db.close()
    except Exception as e:  # noqa
        return ("exc", f"{type(e).__name__}: {e}"[:160])
    finally:
        try:
            os.unlink(path)
        except OSError:
            pass


class C12(E1Check):
    prop = "C12"
    level = "fault_enumeration"
    engine = "iofault"

    assumptions = E1Check.assumptions + [
        "crash model: the process dies between two raw I/O calls; bytes handed to the kernel survive, user-space buffers are lost "
        "(no power loss / no reordering of un-fsynced pages); validated by real-kill conformance runs",
        "a raw write(2)/sendfile of a small row or file is one step (no torn single write)",
    ]

    def rule(self):
        return (
            "all histories (BFS with canonical-state de-duplication) of depth<=D over the crash alphabet on a CSV database "
            "(flush_on_insert=True, auto_index on/off); for every operation every raw-I/O step boundary is a crash point; every "
            "distinct crash image is opened by a fresh TinyFlux and must decode to the contents before or after the operation "
            "(insert_multiple: old + prefix); an interrupted insert must keep the old bytes as a prefix. distinct_nontrivial = "
            "distinct (state, operation, crash image) triples recovered and judged (images_neither_pre_nor_post_bytes counts those "
            "whose bytes differ from both the pre- and the post-operation file)"
        )

    def configs(self):
        cfgs = [
            {"name": "csv/auto", "storage": "csv", "auto_index": True},
            {"name": "csv/manual", "storage": "csv", "auto_index": False},
        ]
        # the database path is a symbolic link (a "write through the link" special case would not be atomic)
        cfgs.append({"name": "csv/auto/symlinked-path", "storage": "csv", "auto_index": True, "symlink": True,
                     "D": 3 if self.tier == "quick" else 4})
        # a database created with access_mode "w+" in the same session: the rewrite of update / remove must be as
        # atomic as in "r+" (a rewrite through the open handle - truncate, then write - is not)
        cfgs.append({"name": "csv/auto/mode=w+", "storage": "csv", "auto_index": True, "csv": {"access_mode": "w+"},
                     "D": 3 if self.tier == "quick" else 4})
        # a run of twelve single appends with nothing in between (a grouped / deferred commit would show here)
        run = tuple(("insert", "G%d" % i, None, False, "db") for i in range(12))
        cfgs.append({"name": "csv/auto/after-12-appends", "storage": "csv", "auto_index": True, "N": 20, "D": 2, "init": run})
        # files larger than one I/O buffer: rewrites that keep the file size, removals, appends
        for n in (130,) if self.tier == "quick" else (130, 1300):
            cfgs += ladder.configs((n,), storages=("csv",), autos=(True,), D=1)
        return cfgs

    def bounds(self):
        return {"N": 4, "D": 4} if self.tier == "quick" else {"N": 5, "D": 5, "max_states": 60000}

    def budget(self):
        return 600 if self.tier == "quick" else 1200

    def worker_init(self):
        super().worker_init()
        SEAM.install()

    def op_list(self, cfg):
        ops = crash_ops(self.alpha, self.tier)
        if cfg.get("csv", {}).get("access_mode") == "w+":
            ops = [o for o in ops if o[0] != "reopen"]  # opening with w+ truncates by definition
        return ops

    def ladder_op_list(self, cfg):
        return [o for o in ladder.ops(self.alpha, cfg) if o[0] != "read_storm" and not (o[0] == "insert_multiple")]

    def apply(self, world, op, T):
        plan = SEAM.begin(Plan(watch=world.path, snapshot=True))
        try:
            return world.apply(op)
        finally:
            SEAM.end()
            T.extra = plan

    # -----------------------------------------------------------------------------------
    def transition(self, T, counters):
        out = []
        plan = T.extra
        k = T.op[0]
        if plan is None:
            return out
        if T.pre_bytes != T.post_bytes and not any(s[0] in ("write", "truncate", "copy-chunk", "copy-open-dst", "replace", "rename") for s in plan.steps):
            raise common.ToolingError(f"I/O seam bypassed: database file changed during {T.op!r} but no mutating step was recorded")
        counters["operations_recorded"] += 1
        counters["steps_recorded"] += len(plan.steps)
        if T.outcome[0] == "exc" or T.post is None:
            return out
        allowed = [T.pre, T.post]
        if k == "insert_multiple":
            exp, _ = T.ref()
            allowed += [exp[: len(T.pre) + i] for i in range(1, len(T.op[1]))]
        seen_images = set()
        for idx, when, img in plan.images:
            counters["crash_points"] += 1
            if img in seen_images:
                continue
            seen_images.add(img)
            counters["evaluations"] += 1
            stepkind = "start" if idx < 0 else plan.steps[idx][0] + ":" + str(plan.steps[idx][1][0] if plan.steps[idx][1] else "")
            if img is None:
                out.append(viol("file-exists", f"C12|{k}|after={stepkind}|file-missing", observed=None, expected="a file"))
                continue
            counters["__distinct_nontrivial"] += 1
            if img not in (T.pre_bytes, T.post_bytes):
                counters["images_neither_pre_nor_post_bytes"] += 1
            r = recover(img)
            if r[0] == "exc":
                out.append(viol("recoverable", f"C12|{k}|after={stepkind}|cannot-open", observed=r[1], expected=allowed[:2],
                                detail=f"image={img!r}") | {"probe": ("crash", idx)})
            elif r[1] not in allowed:
                what = "neither-old-nor-new"
                out.append(viol("old-or-new", f"C12|{k}|after={stepkind}|{what}", observed=r[1], expected=allowed[:2],
                                detail=f"image={img!r}") | {"probe": ("crash", idx)})
            if k in ("insert", "insert_multiple") and T.pre_bytes is not None and not img.startswith(T.pre_bytes):
                out.append(viol("insert-keeps-prefix", f"C12|{k}|after={stepkind}|earlier-rows-altered", observed=img, expected=T.pre_bytes))
        return out

    def coverage_extra(self, res):
        c = res.counters
        return {
            "evaluations": int(c.get("evaluations", 0)) or 1,
            "distinct_nontrivial": int(c.get("__distinct_nontrivial", 0)),
            "crash_points": int(c.get("crash_points", 0)),
            "images_neither_pre_nor_post_bytes": int(c.get("images_neither_pre_nor_post_bytes", 0)),
            "real_kill_conformance_runs": self.kills,
            "traces_validated_against_impl": self.kills,
        }

    # ---- real-kill conformance ------------------------------------------------------------
    def conformance(self, log):
        """Really kill a child process at step boundaries and compare the file with the in-process image."""
        common.import_tinyflux()
        common.install_clock(0)
        SEAM.install()
        cfg = self.configs()[0]
        x = self.alpha.x
        base = (("insert", "P0", None, False, "db"), ("insert", "P1", None, False, "db"), ("insert", "P2", None, False, "db"))
        targets = [
            (base[:1], ("insert", "P1", None, False, "db")),
            (base, ("remove", ("cmp", "tags", ("a",), "==", x), None, "db")),
            (base, ("update_all", W.mkspec(fields=("fn", "f_inc")), "db")),
            (base, ("remove_all",)),
            (base[:2], ("insert_multiple", ("P2", "P3"), None, False, "db")),
        ]
        if self.tier != "quick":
            ops = crash_ops(self.alpha, "quick")
            targets = [((a,), b) for a in ops[:8] for b in ops[:11]] + [((a, b), c) for a in ops[:4] for b in ops[4:8] for c in ops[:11:2]]
        kills = mism = 0
        root = common.scratch_root()
        for hist, op in targets:
            w = W.World.build(cfg, self.alpha, hist)
            plan = SEAM.begin(Plan(watch=w.path, snapshot=True))
            w.apply(op)
            SEAM.end()
            w.close()
            images = {(-1, "after"): plan.images[0][2]}
            for idx, when, img in plan.images[1:]:
                images[(idx, "after")] = img
            for idx in range(len(plan.steps)):
                for when in ("before", "after"):
                    expect = images[(idx, "after")] if when == "after" else images[(idx - 1, "after")]
                    kills += 1
                    d = os.path.join(root, "kill")
                    pid = os.fork()
                    if pid == 0:
                        try:
                            import shutil
                            import tempfile

                            shutil.rmtree(d, ignore_errors=True)
                            os.makedirs(os.path.join(d, "tmp"))
                            os.makedirs(os.path.join(d, "db"))
                            common._SCRATCH = (os.getpid(), d)
                            tempfile.tempdir = os.path.join(d, "tmp")
                            w2 = W.World.build(cfg, self.alpha, hist)
                            SEAM.begin(Plan(watch=w2.path, kill=(idx, when)))
                            w2.apply(op)
                        finally:
                            os._exit(99)  # the kill point was not reached
                    _, status = os.waitpid(pid, 0)
                    code = os.waitstatus_to_exitcode(status)
                    try:
                        with open(os.path.join(d, "db", "db.csv"), "rb") as f:
                            got = f.read()
                    except FileNotFoundError:
                        got = None
                    if code != 137 or got != expect:
                        mism += 1
                        log(f"  conformance mismatch: hist={hist!r} op={op!r} step={idx}/{when} exit={code} file={got!r} image={expect!r}")
        SEAM.uninstall()
        common._SCRATCH = (os.getpid(), root)
        import tempfile

        tempfile.tempdir = os.path.join(root, "tmp")
        if mism:
            raise common.ToolingError(f"real-kill conformance failed: {mism} of {kills} boundaries differ from the in-process crash images")
        log(f"  real-kill conformance: {kills} kills, all files equal the in-process crash images")
        return kills

    def run(self, log=print):
        self.kills = self.conformance(log)
        return super().run(log)


def make(tier, seed):
    return C12(tier, seed)
