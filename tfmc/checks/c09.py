"""C09 - query expressions mean what the DSL says and never fail on valid points (DESIGN 4, C09).

Search over the term algebra: the transitions are the real constructor calls ~, &, | applied to
already-built real query objects; every term is evaluated on every point of a finite universe and
compared with the independent reference evaluator (tfmc/qast.py).
"""

import collections
import datetime as dt
import math

from .. import alphabet, common, qast, univ
from .base import viol


class _Broken:
    """Stands for a query the real DSL refused to construct: evaluating it re-raises the constructor's error, so
    that the failure is reported as a violation (``raises``) of the term it belongs to, not as a crash of the check."""

    def __init__(self, exc):
        self.exc = exc

    def __call__(self, point):
        raise self.exc

    def __invert__(self):
        return self

    def __and__(self, other):
        return self

    __rand__ = __or__ = __ror__ = __and__


def safe_build(ast):
    try:
        q = qast.build(ast)
    except Exception as e:  # noqa
        return _Broken(e)
    if not callable(q):  # e.g. a comparison that fell through to object equality and answered with a plain bool
        return _Broken(TypeError(f"the DSL built {q!r} instead of a query"))
    return q


def _and(a, b):
    return b if isinstance(b, _Broken) else a & b


def _or(a, b):
    return b if isinstance(b, _Broken) else a | b


def real_point(rp):
    """A real Point for a universe entry; a time of None is a point that has never been given one (bare Point())."""
    from tinyflux import Point

    p = Point()
    if rp[0] is not None:
        p.time = rp[0]
    p.measurement, p.tags, p.fields = rp[1], dict(rp[2]), dict(rp[3])
    return p


def point_universe(alpha):
    """381 points: 378 = tag a x field v x measurement x time, each with a second tag/field."""
    x = alpha.x
    t1 = alpha.t[1]
    us = dt.timedelta(microseconds=1)
    MISSING = object()
    tag_a = [MISSING, None, "", x, x.upper() if x.upper() != x else x + "X", x + "y"]
    field_v = [MISSING, None, 0, -1, 1, 1.5, math.inf, 2**53, 2**53 + 1]
    meas = ["m", "", "n"]
    times = [t1 - us, t1, t1 + us]
    U = []
    for a in tag_a:
        for v in field_v:
            for m in meas:
                for t in times:
                    tags = {"b": x}
                    if a is not MISSING:
                        tags["a"] = a
                    fields = {"w": 1}
                    if v is not MISSING:
                        fields["v"] = v
                    U.append((t, m, tags, fields))
    # points that have no time yet (every Point() before its insertion), and keys named like attributes of a query object
    U.append((None, "m", {"a": x, "b": x}, {"v": 1, "w": 1}))
    U.append((None, "", {"b": x}, {"w": 1}))
    U.append((t1, "m", {"test": x, "map": x, "b": x}, {"exists": 1, "w": 1}))
    return U


def c09_atoms(alpha):
    """Every operator of every query type, rhs at / around the universe values."""
    x = alpha.x
    t1 = alpha.t[1]
    us = dt.timedelta(microseconds=1)
    A = list(alpha.atoms("thorough"))
    extra = []
    for op in ("==", "!=", "<", "<=", ">", ">="):
        extra.append(("cmp", "time", (), op, t1 + us))
        extra.append(("cmp", "fields", ("v",), op, 1))
        extra.append(("cmp", "fields", ("v",), op, 1.5))
        extra.append(("cmp", "tags", ("a",), op, x))
        extra.append(("cmp", "measurement", (), op, "m"))
    extra += [
        # keys named like attributes / methods of the query object itself (reachable through [] only)
        ("cmp", "tags", ("test",), "==", x),
        ("exists", "tags", ("map",)),
        ("cmp", "fields", ("exists",), ">", 0),
        ("cmp", "tags", ("_path",), "==", x),
        ("cmp", "time", (), "<", t1 - us),
        ("cmp", "time", (), "==", (t1 - us).astimezone(dt.timezone(dt.timedelta(hours=-8)))),
        ("cmp", "fields", ("v",), "<", math.inf),
        ("cmp", "fields", ("v",), "==", 2**53 + 1),
        ("cmp", "fields", ("v",), "<", 2**53 + 1),
        ("cmp", "fields", ("v",), ">=", 2**53 + 1),
        ("cmp", "fields", ("v",), "!=", 2**53),
        ("cmp", "fields", ("v",), ">=", math.inf),
        ("cmp", "fields", ("v",), "==", 0),
        ("cmp", "fields", ("v",), "<", 0),
        ("cmp", "fields", ("v",), "!=", None),
        ("cmp", "tags", ("a",), "!=", None),
        ("cmp", "tags", ("a",), "!=", ""),
        ("cmp", "tags", ("a",), ">", ""),
        ("cmp", "measurement", (), "==", ""),
        ("cmp", "measurement", (), ">", ""),
        ("regex", "matches", "tags", ("a",), "", 0),
        ("regex", "matches", "tags", ("a",), x.upper(), 2),
        ("regex", "matches", "tags", ("a",), x.upper(), 0),
        ("regex", "search", "tags", ("a",), "y$", 0),
        ("regex", "search", "tags", ("zz",), ".", 0),
        ("regex", "matches", "measurement", (), "", 0),
        ("regex", "search", "measurement", (), "^$", 0),
        ("test", "tags", ("a",), "always", ()),
        ("test", "tags", ("zz",), "always", ()),
        ("test", "fields", ("v",), "never", ()),
        ("test", "fields", ("v",), "is_pos", ()),
        ("test", "fields", ("v",), "gt", (0,)),
        ("test", "measurement", (), "always", ()),
        ("test", "time", (), "always", ()),
        ("cmp", "tags", ("a", ("map", "len")), "==", 0),
        ("cmp", "tags", ("a", ("map", "first")), "==", x[0]),
        ("cmp", "measurement", (("map", "len"),), "==", 0),
        ("cmp", "measurement", (("map", "first"),), "==", "m"),
        ("cmp", "fields", (("map", "ident"), "v"), ">", 0),
        ("exists", "fields", ("v", ("map", "plus_one"))),
        ("exists", "tags", ("zz",)),
        ("exists", "fields", ("zz",)),
        ("test", "tags", (("map", "has_key_a"),), "ident", ()),
    ]
    seen, out = set(), []
    for a in A + extra:
        if a not in seen:
            seen.add(a)
            out.append(a)
    return out


def step_size(n):
    return 2 * n + 2 * n * n


def step_term(S, i):
    """Element i of step(S) = S + {not s} + {and(s,t)} + {or(s,t)} as (kind, i1, i2)."""
    n = len(S)
    if i < n:
        return ("id", i, None)
    if i < 2 * n:
        return ("not", i - n, None)
    j = i - 2 * n
    op = "and" if j < n * n else "or"
    j %= n * n
    return (op, j // n, j % n)


def step_asts(S):
    out = []
    for i in range(step_size(len(S))):
        k, a, b = step_term(S, i)
        out.append(S[a] if k == "id" else (("not", S[a]) if k == "not" else (k, S[a], S[b])))
    return out


class C09(univ.UnivCheck):
    prop = "C09"
    level = "model_checking"

    def __init__(self, tier, seed):
        super().__init__(tier, seed)
        self.alpha = alphabet.Alphabet(seed)
        A = c09_atoms(self.alpha)
        reps = [
            ("cmp", "tags", ("a",), "==", self.alpha.x),        # false on a missing key
            ("cmp", "fields", ("v",), "<", 1),                    # undefined on None
            ("cmp", "time", (), "<=", self.alpha.t[1]),           # time comparison
            ("regex", "matches", "tags", ("a",), self.alpha.x[0], 0),
            ("cmp", "measurement", (), "==", "m"),
            ("exists", "fields", ("v",)),
            ("noop", "tags"),
            ("cmp", "fields", ("v", ("map", "plus_one")), "==", 2),
            ("cmp", "tags", ("a",), "!=", None),
            ("test", "fields", ("v",), "is_even", ()),
        ]
        # family = (name, list of materialised levels; the last level is enumerated by index arithmetic)
        if tier == "quick":
            fams = [("all-atoms-depth1", A, 1), ("reps6-depth2", reps[:6], 2)]
        else:
            fams = [("all-atoms-depth1", A, 1), ("reps10-depth2", reps, 2), ("reps3-depth3", reps[:3], 3)]
        self.families = []
        off = 0
        for name, base, k in fams:
            S = list(base)
            for _ in range(k - 1):
                S = step_asts(S)
            n = step_size(len(S))
            self.families.append({"name": name, "S": S, "size": n, "offset": off, "depth": k, "base": len(base)})
            off += n
        self.total = off
        self.U = point_universe(self.alpha)
        self.natoms = len(A)

    def rule(self):
        return (
            "breadth-first closure of the query term algebra under the real constructors ~ & | : depth<=1 over all "
            "atoms, depth<=2 over 6/10 representatives, depth<=3 over 3 representatives (thorough); every term is "
            "evaluated on every point of a 486-point universe (tag a in {missing,None,'',x,X,xy} x field v in "
            "{missing,None,0,-1,1,1.5,inf} x 3 measurements x 3 adjacent-microsecond times) against the independent "
            "reference evaluator; no exception may escape and the value must be a bool"
        )

    def universe_size(self):
        return self.total

    def shard(self, n, workers):
        out = []
        for f in self.families:
            per = max(1, min(20000, f["size"] // (workers * 4) or 1))
            for i in range(0, f["size"], per):
                out.append((f["offset"] + i, f["offset"] + min(f["size"], i + per)))
        return out

    def coverage_extra(self, counters):
        return {
            "states": int(counters.get("terms", 0)),
            "transitions": int(counters.get("terms", 0)) - sum(f["base"] for f in self.families if f["depth"] == 1),
            "traces_validated_against_impl": int(counters.get("terms", 0)),
            "families": [{k: f[k] for k in ("name", "size", "depth", "base")} for f in self.families],
            "points": len(self.U),
            "atoms": self.natoms,
        }

    # -- worker side -----------------------------------------------------------------------
    def worker_init(self):
        common.import_tinyflux()
        from tinyflux import Point

        self.points = []
        for t, m, tags, fields in self.U:
            p = real_point((t, m, tags, fields))
            self.points.append(p)
        self.mask = (1 << len(self.U)) - 1
        self._fam_cache = {}

    def _family(self, fi):
        if fi not in self._fam_cache:
            f = self.families[fi]
            real = [safe_build(a) for a in f["S"]]
            refv = []
            for a in f["S"]:
                v = 0
                for i, rp in enumerate(self.U):
                    if qast.ref_eval(a, rp):
                        v |= 1 << i
                refv.append(v)
            self._fam_cache[fi] = (real, refv)
        return self._fam_cache[fi]

    def eval_real(self, q):
        """Truth vector of the real query over the universe; (vector, problem)."""
        v = 0
        for i, p in enumerate(self.points):
            try:
                r = q(p)
            except Exception as e:  # noqa
                return None, ("raises", i, type(e).__name__ + ": " + str(e)[:80])
            if r is True:
                v |= 1 << i
            elif r is not False:
                return None, ("non-bool", i, repr(r)[:60])
        return v, None

    def run_range(self, lo, hi):
        out, c, smp = [], collections.Counter(), []
        for fi, f in enumerate(self.families):
            a, b = max(lo, f["offset"]), min(hi, f["offset"] + f["size"])
            if a >= b:
                continue
            real, refv = self._family(fi)
            S = f["S"]
            for gi in range(a, b):
                k, i1, i2 = step_term(S, gi - f["offset"])
                if k == "id":
                    q, exp = real[i1], refv[i1]
                elif k == "not":
                    q, exp = ~real[i1], ~refv[i1] & self.mask
                elif k == "and":
                    q, exp = _and(real[i1], real[i2]), refv[i1] & refv[i2]
                else:
                    q, exp = _or(real[i1], real[i2]), refv[i1] | refv[i2]
                c["evaluations"] += len(self.points)
                c["terms"] += 1
                if exp not in (0, self.mask):
                    c["__distinct_nontrivial"] += 1
                got, problem = self.eval_real(q)
                if got != exp:
                    ast = S[i1] if k == "id" else (("not", S[i1]) if k == "not" else (k, S[i1], S[i2]))
                    if problem:
                        kind, pi, info = problem
                    else:
                        diff = got ^ exp
                        pi = (diff & -diff).bit_length() - 1
                        kind, info = "wrong-value", bool(got >> pi & 1)
                    rp = self.U[pi]
                    pclass = "tag=%s,field=%s" % (
                        "missing" if "a" not in rp[2] else ("None" if rp[2]["a"] is None else "str"),
                        "missing" if "v" not in rp[3] else ("None" if rp[3]["v"] is None else "num"),
                    )
                    out.append(viol("query-meaning", f"C09|{kind}|shape={qast.shape(ast)}|{pclass}", observed=info,
                                    expected=bool(exp >> pi & 1), kind="input") | {"input": (ast, rp)})
                if len(smp) < 3 and k in ("and", "or") and gi % 977 == 0:
                    smp.append({"family": f["name"], "term": qast.pretty(S[i1] if k == "id" else (k, S[i1], S[i2])),
                                "true_on_points": bin(exp).count("1")})
        return out, c, smp

    # ---- evaluation-history independence ---------------------------------------------------
    def history_pass(self):
        """Evaluate every atom on every point in one process, forwards and then backwards.

        A query's value must depend on (query, point) only; a value that changes with what was evaluated
        before (shared mutable state between query objects) shows up here as a mismatch with the reference
        in at least one of the two orders.  Deterministic, so its findings replay (recheck re-runs it).
        """
        self.worker_init()
        atoms = self.families[0]["S"][: self.natoms]
        out = []
        for order, seq in (("forward", atoms), ("backward", list(reversed(atoms)))):
            for a in seq:
                q = safe_build(a)
                for i, rp in enumerate(self.U):
                    exp = qast.ref_eval(a, rp)
                    try:
                        r = q(self.points[i])
                    except Exception as e:  # noqa
                        r = type(e).__name__
                    if r is not exp:
                        out.append(viol("query-meaning", f"C09|depends-on-evaluation-history|shape={qast.shape(a)}", observed=r, expected=exp,
                                        kind="input", detail=f"order={order}") | {"input": (a, rp)})
                        break
        out += self.deep_chains(atoms)
        return out

    def deep_chains(self, atoms):
        """Left-nested chains of 250 operands - beyond any small-depth fast path or recursion guard.

        All operands but two are constant fillers (always False for |, always True for &), so the value of the
        chain is exactly m1 | m2 (or m1 & m2) for two designated operands placed at both ends; every ordered pair
        of a set of map()-atoms and hashable atoms with differing truth vectors is used as (m1, m2).
        """
        import functools

        out = []
        maps = [a for a in atoms if qast.has_map(a)][:4]
        plain = [("cmp", "tags", ("a",), "==", self.alpha.x), ("cmp", "fields", ("v",), "<", 1)]
        never = ("test", "tags", ("b",), "never", ())
        always = ("test", "tags", ("b",), "always", ())
        picks = maps + plain
        for m1 in picks:
            for m2 in picks:
                if m1 is m2:
                    continue
                for name, filler, fold_real, fold_ref in (
                    ("or", never, _or, lambda a, b: a or b),
                    ("and", always, _and, lambda a, b: a and b),
                ):
                    sub = [m1] + [filler] * 248 + [m2]
                    q = functools.reduce(fold_real, [safe_build(a) for a in sub])
                    for i, rp in enumerate(self.U):
                        exp = fold_ref(qast.ref_eval(m1, rp), qast.ref_eval(m2, rp))
                        try:
                            r = q(self.points[i])
                        except Exception as e:  # noqa
                            r = type(e).__name__
                        if r is not exp:
                            out.append(viol("query-meaning", f"C09|depends-on-evaluation-history|deep-chain-{name}", observed=r, expected=exp,
                                            kind="input", detail=f"250 operands, left-nested: {qast.pretty(m1)} {name} 248 fillers {name} {qast.pretty(m2)}")
                                       | {"input": (("noop", "tags"), rp)})
                            break
        return out

    def run(self, log=print):
        import multiprocessing
        import time

        t0 = time.time()
        with multiprocessing.get_context("fork").Pool(1) as pool:
            hv = pool.apply(self.history_pass)
        # keep only what a single isolated evaluation does NOT show (those are reported by the exhaustive pass)
        hist_only = []
        with multiprocessing.get_context("fork").Pool(1) as pool:
            for v in hv:
                if not pool.apply(self.recheck_single, (v["input"],)):
                    hist_only.append(v)
        if hist_only:
            import collections

            vc = collections.Counter(v["signature"] for v in hist_only)
            first = {}
            for v in hist_only:
                v.setdefault("property", self.prop)
                first.setdefault(v["signature"], v)
            cov = {"states": self.natoms, "transitions": 2 * self.natoms, "traces_validated_against_impl": 2 * self.natoms * len(self.U),
                   "samples": [{"history_pass": "all atoms forwards then backwards in one process"}], "exhaustive": True,
                   "rule": self.rule(), "explanation": "query values depend on the evaluation history; the sharded exhaustive pass was skipped"}
            from .base import finalize

            return finalize(self, list(first.values()), vc, cov, t0, log)
        return super().run(log)

    def recheck_single(self, inp):
        """True iff one isolated evaluation of (term, point) already disagrees with the reference."""
        self.worker_init()
        return bool(self._single(inp[0], inp[1], None))

    def _single(self, ast, rp, sig):
        from tinyflux import Point

        p = real_point(rp)
        exp = qast.ref_eval(ast, rp)
        try:
            r = qast.build(ast)(p)
        except Exception as e:  # noqa
            r = type(e).__name__
        return [viol("query-meaning", sig or "C09|single", observed=r, expected=exp)] if r is not exp else []

    def recheck(self, rec):
        from tinyflux import Point

        if "depends-on-evaluation-history" in rec["signature"]:
            return [v for v in self.history_pass() if v["signature"] == rec["signature"]][:1]
        ast, rp = rec["input"]
        p = real_point(rp)
        exp = qast.ref_eval(ast, rp)
        try:
            r = qast.build(ast)(p)
            kind = "wrong-value" if isinstance(r, bool) else "non-bool"
        except Exception as e:  # noqa
            r, kind = type(e).__name__, "raises"
        if r is not exp:
            return [viol("query-meaning", rec["signature"], observed=r, expected=exp)] if kind in rec["signature"] else \
                [viol("query-meaning", f"C09|{kind}|other", observed=r, expected=exp)]
        return []


def make(tier, seed):
    return C09(tier, seed)
