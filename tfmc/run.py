"""Entry point: python -m tfmc.run <property id> <quick|thorough>  |  replay <file> [--json]  |  selftest."""

import json
import os
import sys
import time

from . import common


def main(argv):
    if len(argv) < 2:
        print(__doc__)
        return 2
    cmd = argv[1]
    os.environ.setdefault("PYTHONHASHSEED", "0")
    if "TZ" not in os.environ or os.environ.get("TFMC_FORCE_TZ", "1") == "1":
        common.set_tz(os.environ.get("TFMC_TZ", "UTC"))
    try:
        common.import_tinyflux()
        common.scratch_root()
        if cmd == "replay":
            from . import replay

            reproduced, info = replay.replay_file(argv[2])
            if "--json" in argv:
                print(json.dumps(info, sort_keys=True, default=str))
            else:
                print("REPRODUCED" if reproduced else "NOT REPRODUCED")
                for k, v in info.items():
                    print(f"  {k}: {v}")
            return 1 if reproduced else 0
        if cmd == "selftest":
            from . import selftest

            return selftest.main()
        prop = cmd.upper()
        tier = argv[2] if len(argv) > 2 else os.environ.get("VERIF_TIER", "quick")
        if tier not in ("quick", "thorough"):
            print(f"unknown tier {tier}")
            return 2
        from . import replay

        seed = common.env_seed()
        t0 = time.time()
        check = replay.load_check(prop, tier, seed)
        print(f"== {prop} {tier} seed={seed} ==", flush=True)
        rc = check.run()
        print(f"== {prop} done rc={rc} in {time.time() - t0:.1f}s ==", flush=True)
        return rc
    except common.ToolingError as e:
        print(f"TOOLING-ERROR: {e}", flush=True)
        return 3


if __name__ == "__main__":
    sys.exit(main(sys.argv))
