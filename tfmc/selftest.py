"""Setup / self-test: nothing to build (pure Python); verify the binding to /repo and the machinery's own pieces."""

import datetime as dt

from . import alphabet, common, qast, refmodel


def main():
    tf = common.import_tinyflux()
    print("tinyflux from", tf.__file__)
    common.scratch_root()
    common.install_clock(0)
    # reference evaluator sanity on hand-computed cases
    t = dt.datetime(2021, 1, 1, tzinfo=dt.timezone.utc)
    rp = (t, "m", {"a": None}, {"v": 1})
    assert qast.ref_eval(("cmp", "tags", ("a",), "==", None), rp) is True
    assert qast.ref_eval(("cmp", "tags", ("b",), "!=", "x"), rp) is False
    assert qast.ref_eval(("not", ("cmp", "tags", ("b",), "!=", "x")), rp) is True
    assert qast.ref_eval(("regex", "matches", "tags", ("a",), "x", 0), rp) is False
    assert qast.ref_eval(("cmp", "fields", ("v",), "<", 2), rp) is True
    assert qast.ref_eval(("noop", "tags"), (t, "m", {}, {})) is True
    # real queries build through the public DSL
    A = alphabet.Alphabet(0)
    for q in A.vocabulary("thorough"):
        qast.build(q)
    # virtual clock
    import tinyflux.database as D

    assert D.datetime.now(dt.timezone.utc) == common.CLOCK_START
    assert isinstance(t, D.datetime)
    # json codec round trip
    rec = {"history": [("insert", "P0", None, False, "db"), ("remove", ("cmp", "time", (), "<", t), None, "db")], "x": {1: 2.5, None: float("inf")}}
    import json

    assert common.jdec(json.loads(json.dumps(common.jenc(rec)))) == rec
    print("selftest ok")
    return 0
