"""Query AST: one node builds the *real* query (public DSL) and the *reference* predicate.

AST nodes (tuples, hashable, made of plain values so they can be written to replay files):

    ("cmp",   attr, path, op, rhs)           attr in time|measurement|tags|fields ; op in == != < <= > >=
    ("exists", attr, path)
    ("regex", kind, attr, path, pattern, flags)   kind in matches|search
    ("test",  attr, path, fn_id, args)
    ("noop",  attr)
    ("not", q) ("and", q1, q2) ("or", q1, q2)

``path`` is a tuple whose elements are key strings or ("map", fn_id).

The reference evaluator implements the statement of C09 directly and shares no code with
tinyflux: a comparison is true iff the addressed value exists (the path resolves) and the
comparison is defined and true; anything undefined is False; exists is key presence; regex is
re.match / re.search on a string value (False on anything that is not a string); test(f,*a) is
f(value,*a); noop is True; ~ & | are Boolean.
"""

import datetime as _dt
import operator
import re

# --------------------------------------------------------------------------- function table
# Test functions are total and return bool (the documentation defines ``test`` only for such
# functions); map functions may raise, which makes the path undefined (= False).  All deterministic.


def _is_even(v):
    return isinstance(v, (int, float)) and v % 2 == 0


def _is_pos(v):
    return isinstance(v, (int, float)) and v > 0


def _starts_x(v):
    return isinstance(v, str) and v.startswith("x")


def _plus_one(v):
    return v + 1


def _upper(v):
    return v.upper()


def _rekey(d):
    # function at the *start* of a tag/field path: sees the whole mapping
    return {"z": d.get("a")}


def _nkeys(d):
    return len(d)


def _year(t):
    return t.year


def _second(t):
    return t.second


def _is_none(v):
    return v is None


def _gt(v, bound):
    return type(v) is type(bound) and v > bound


def _always(v):
    return True


def _never(v):
    return False


def _first(v):
    return v[0]


def _len(v):
    return len(v)


def _ident(v):
    return v


def _has_key_a(d):
    return "a" in d


def _join_ab(d):
    # reads two entries of the tag set: only meaningful when it sees the whole set
    return {"z": (d.get("a") or "") + "+" + (d.get("b") or "")}


def _sum_vw(d):
    return {"s": (d.get("v") or 0) + (d.get("w") or 0)}


def _plus_1s(t):
    import datetime

    return t + datetime.timedelta(seconds=1)


FN = {
    "is_even": _is_even,
    "is_pos": _is_pos,
    "starts_x": _starts_x,
    "plus_one": _plus_one,
    "upper": _upper,
    "rekey": _rekey,
    "nkeys": _nkeys,
    "year": _year,
    "second": _second,
    "is_none": _is_none,
    "gt": _gt,
    "always": _always,
    "never": _never,
    "first": _first,
    "len": _len,
    "ident": _ident,
    "has_key_a": _has_key_a,
    "plus_1s": _plus_1s,
    "join_ab": _join_ab,
    "sum_vw": _sum_vw,
}

OPS = {
    "==": operator.eq,
    "!=": operator.ne,
    "<": operator.lt,
    "<=": operator.le,
    ">": operator.gt,
    ">=": operator.ge,
}

_ATTR_IDX = {"time": 0, "measurement": 1, "tags": 2, "fields": 3}


_EPOCH = _dt.datetime(1970, 1, 1, tzinfo=_dt.timezone.utc)


def _instant_us(t):
    if t.tzinfo is None:
        t = t.astimezone()
    d = t - _EPOCH
    return (d.days * 86400 + d.seconds) * 10**6 + d.microseconds


class _Undefined(Exception):
    pass


def _resolve(attr, path, rp):
    v = rp[_ATTR_IDX[attr]]
    for el in path:
        if isinstance(el, str):
            if not isinstance(v, dict) or el not in v:
                raise _Undefined()
            v = v[el]
        else:
            try:
                v = FN[el[1]](v)
            except Exception:
                raise _Undefined()
    return v


def ref_eval(q, rp):
    """Reference truth value of AST ``q`` on reference point ``rp`` = (time, meas, tags, fields)."""
    k = q[0]
    if k == "not":
        return not ref_eval(q[1], rp)
    if k == "and":
        return ref_eval(q[1], rp) and ref_eval(q[2], rp)
    if k == "or":
        return ref_eval(q[1], rp) or ref_eval(q[2], rp)
    if k == "noop":
        return True
    try:
        if k == "cmp":
            _, attr, path, op, rhs = q
            v = _resolve(attr, path, rp)
            if isinstance(v, _dt.datetime) and isinstance(rhs, _dt.datetime):
                # documented meaning: instants are compared; a naive value is local time (never Python's
                # "naive and aware are incomparable", never PEP 495's inter-zone fold rule)
                v, rhs = _instant_us(v), _instant_us(rhs)
            try:
                return bool(OPS[op](v, rhs))
            except Exception:
                return False
        if k == "exists":
            _resolve(q[1], q[2], rp)
            return True
        if k == "regex":
            _, kind, attr, path, pattern, flags = q
            v = _resolve(attr, path, rp)
            if not isinstance(v, str):
                return False
            f = re.match if kind == "matches" else re.search
            return f(pattern, v, flags) is not None
        if k == "test":
            _, attr, path, fn_id, args = q
            v = _resolve(attr, path, rp)
            return bool(FN[fn_id](v, *args))
    except _Undefined:
        return False
    raise ValueError(f"bad AST {q!r}")


def _base(attr, path):
    from tinyflux import TimeQuery, MeasurementQuery, TagQuery, FieldQuery

    b = {"time": TimeQuery, "measurement": MeasurementQuery, "tags": TagQuery, "fields": FieldQuery}[attr]()
    for el in path:
        if isinstance(el, str):
            b = b[el]
        else:
            b = b.map(FN[el[1]])
    return b


def build(q):
    """Build the real tinyflux query for AST ``q`` through the public DSL (fresh objects)."""
    k = q[0]
    if k == "not":
        return ~build(q[1])
    if k == "and":
        return build(q[1]) & build(q[2])
    if k == "or":
        return build(q[1]) | build(q[2])
    if k == "noop":
        return _base(q[1], ()).noop()
    if k == "cmp":
        _, attr, path, op, rhs = q
        return OPS[op](_base(attr, path), rhs)
    if k == "exists":
        return _base(q[1], q[2]).exists()
    if k == "regex":
        _, kind, attr, path, pattern, flags = q
        b = _base(attr, path)
        return b.matches(pattern, flags) if kind == "matches" else b.search(pattern, flags)
    if k == "test":
        _, attr, path, fn_id, args = q
        return _base(attr, path).test(FN[fn_id], *args)
    raise ValueError(f"bad AST {q!r}")


def has_map(q):
    k = q[0]
    if k in ("not",):
        return has_map(q[1])
    if k in ("and", "or"):
        return has_map(q[1]) or has_map(q[2])
    if k == "noop":
        return False
    path = {"cmp": 2, "exists": 2, "regex": 3, "test": 2}[k]
    return any(not isinstance(e, str) for e in q[path])


def shape(q):
    """Operator skeleton with attribute kinds; constants abstracted (used in finding signatures)."""
    k = q[0]
    if k == "not":
        return f"not({shape(q[1])})"
    if k in ("and", "or"):
        return f"{k}({shape(q[1])},{shape(q[2])})"
    if k == "noop":
        return f"{q[1]}.noop"
    if k == "cmp":
        _, attr, path, op, rhs = q
        m = _pathshape(path)
        r = "None" if rhs is None else ""
        return f"{attr}{m}.cmp{op if attr == 'time' else ''}{r}"
    if k == "exists":
        return f"{q[1]}{_pathshape(q[2])}.exists"
    if k == "regex":
        return f"{q[2]}{_pathshape(q[3])}.{q[1]}" + ("+flags" if q[5] else "")
    if k == "test":
        return f"{q[1]}{_pathshape(q[2])}.test"
    return "?"


def _pathshape(path):
    out = ""
    for i, e in enumerate(path):
        if not isinstance(e, str):
            out += ".map@%d" % i
    return out


def leaves(q):
    k = q[0]
    if k == "not":
        return leaves(q[1])
    if k in ("and", "or"):
        return leaves(q[1]) + leaves(q[2])
    return [q]


def depth(q):
    k = q[0]
    if k == "not":
        return 1 + depth(q[1])
    if k in ("and", "or"):
        return 1 + max(depth(q[1]), depth(q[2]))
    return 0


def pretty(q):
    k = q[0]
    if k == "not":
        return f"~({pretty(q[1])})"
    if k == "and":
        return f"({pretty(q[1])}) & ({pretty(q[2])})"
    if k == "or":
        return f"({pretty(q[1])}) | ({pretty(q[2])})"
    names = {"time": "TimeQuery()", "measurement": "MeasurementQuery()", "tags": "TagQuery()", "fields": "FieldQuery()"}
    if k == "noop":
        return names[q[1]] + ".noop()"

    def p(attr, path):
        s = names[attr]
        for e in path:
            s += f"[{e!r}]" if isinstance(e, str) else f".map({e[1]})"
        return s

    if k == "cmp":
        return f"{p(q[1], q[2])} {q[3]} {q[4]!r}"
    if k == "exists":
        return p(q[1], q[2]) + ".exists()"
    if k == "regex":
        return f"{p(q[2], q[3])}.{q[1]}({q[4]!r}, {q[5]})"
    if k == "test":
        return f"{p(q[1], q[2])}.test({q[3]}{''.join(', %r' % a for a in q[4])})"
    return repr(q)
