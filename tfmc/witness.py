"""Record a hand-picked witness of a genuine defect under /verif/witnesses (committed, unlike replays/).

usage: python -m tfmc.witness <name> <PROP> <config name> <signature substring> <history python literal> [state|transition]
The history is executed through the check's own recheck(); the first violation whose signature
contains the substring is stored.  `./run.sh replay witnesses/<name>.json` replays it.
"""

import ast
import datetime
import json
import os
import sys

from . import common, replay


def main(argv):
    name, prop, cfgname, sigpart, hist = argv[1:6]
    kind = argv[6] if len(argv) > 6 else "state"
    common.set_tz(os.environ.get("TFMC_TZ", "UTC"))
    common.import_tinyflux()
    common.scratch_root()
    check = replay.load_check(prop, os.environ.get("VERIF_TIER", "quick"), common.env_seed())
    check.worker_init()
    cfg = [c for c in check.configs() if c["name"] == cfgname][0]
    history = eval(hist, {"datetime": datetime, "A": check.alpha, "t": check.alpha.t})
    rec = {"property": prop, "config": cfgname, "cfg": {k: v for k, v in cfg.items() if k != "name"},
           "history": list(history), "kind": kind, "signature": ""}
    seen = check.recheck(rec)
    hit = [v for v in seen if sigpart in v["signature"]]
    if not hit:
        print("not reproduced; signatures seen:", sorted({v["signature"] for v in seen})[:20])
        return 1
    v = hit[0]
    v.update(property=prop, config=cfgname, cfg=rec["cfg"], history=list(history), seed=common.env_seed(), tier=check.tier)
    os.makedirs(os.path.join(common.VERIF, "witnesses"), exist_ok=True)
    path = os.path.join(common.VERIF, "witnesses", name + ".json")
    with open(path, "w") as f:
        json.dump(common.jenc(v), f, indent=1, sort_keys=True)
        f.write("\n")
    print("wrote", path, v["signature"])
    print("  observed:", common.short(v["observed"]))
    print("  expected:", common.short(v["expected"]))
    return 0


if __name__ == "__main__":
    sys.exit(main(sys.argv))
