"""Generate /verif/MANIFEST.json from one table (python3 -m tfmc.manifest)."""

import json
import os

VERIF = os.path.dirname(os.path.dirname(os.path.abspath(__file__)))

# id -> (engine, category, technique, level text, level note, design ref)
LADDER = " A scale ladder repeats the exploration (depth<=2 over a dedicated operation alphabet) from generated databases of 40, 300 and 1300 points, so that size-guarded code paths are exercised; it extends the size axis deterministically but proves nothing about sizes in between."
E1NOTE = 'Trusted: CPython determinism under pinned TZ/hash seed/virtual clock; the reference model and query evaluator (tfmc/refmodel.py, tfmc/qast.py); claims are for the explored alphabets and bounds (N stored points, depth D, reported closure) only.'
E3NOTE = 'Trusted: CPython determinism; the reference function in the check module; the claim is for the enumerated finite universe only (no extrapolation to all strings/floats/terms).'

FNOTE = 'Trusted: the crash/fault model (process death between raw I/O calls; single failing call; no power loss, no short writes) and that the seam sees every I/O call of tinyflux.storages (liveness check + real-kill conformance); CPython buffered/text layers are the real ones.'

CHECKS = {
    "C01": (
        "histmc", "model_checking",
        "explicit-state BFS over operation histories on the real TinyFlux objects, canonical-state de-duplication, reference-model oracle at every state",
        "All histories over a colliding operation alphabet (<=N stored points, depth<=D; thorough tier also to the fixpoint within 2 stored points = histories of any length) on {CSV,memory}x{auto_index on,off}; at every distinct state every query of a 200+/800+ term vocabulary x measurement filter is answered by search/count/contains/get/select on the real object and compared with an independent reference evaluation over the state's own contents.",
        E1NOTE, "4/C01",
    ),
    "C02": (
        "histmc", "model_checking",
        "explicit-state BFS over histories; at every state every removal selector x filter x call form executed as a probe transition on a fresh replica and compared with the reference model",
        "At every reachable state (BFS as C01) every removal selector (atoms, negations, compounds) x measurement filter x {db.remove, handle.remove, drop_measurement, handle.remove_all, remove_all} is executed on the real object; returned count and surviving contents (order, values) are compared with the reference; states after a removal get the read and getter batteries.",
        E1NOTE, "4/C02",
    ),
    "C03": (
        "histmc", "model_checking",
        "explicit-state BFS over histories; every update form x selector x scope executed as a probe transition on a fresh replica, contents compared position by position with the reference model",
        "At every reachable state every update form (static and callable; time/measurement/tags/fields/unset_* incl. one-shot iterators/combinations) x 13+ selectors x measurement scope, update_all and handle variants run on the real object; stored contents afterwards are compared position by position and the return value with the number of changed points.",
        E1NOTE, "4/C03",
    ),
    "C04": (
        "histmc", "model_checking",
        "one explicit-state BFS per CSV configuration; after every operation and after closing a replica of every state an independent byte-level reader decodes the file and is compared with the reference model",
        "18 (quick) / 56 (thorough) CSVStorage configurations (flush_on_insert x encoding x csv dialect; compact prefixes mixed per insert), histories with early-stopping reads, rewrites and reopen over delimiter/quote/CR/LF/non-ASCII strings; the file alone (independent reader, and a fresh TinyFlux) must hold the reference contents in insertion order.",
        E1NOTE, "4/C04",
    ),
    "C05": (
        "univ", "exploration",
        "bounded-exhaustive enumeration of a structured point universe through the real CSV write/read path",
        "Exhaustive (exhaustive:true) enumeration of string atoms in every slot singly and jointly, point shapes, numeric edge values incl. every float64 exponent, timestamp edges, both prefix styles, three csv dialects; each point written by TinyFlux.insert to a real file and read back by a fresh TinyFlux. Not claimed: strings outside the atom closure.",
        E3NOTE, "4/C05",
    ),
    "C06": (
        "histmc", "model_checking",
        "explicit-state BFS over histories incl. raising operations; at every state with a valid index all index answers compared with a freshly built index and with a force-rebuilt replica",
        "Whenever the database reports its index valid, every answer the Index can give (search items + exactness over the vocabulary, measurements, tag/field keys/values, timestamps, len, empty, latest_time, every measurement argument) equals that of Index().build(stored contents); count/search equal a replica after invalidate()+reindex(); validity transition invariants (in-order insert keeps valid, reads leave valid). The quick tier includes one run to the fixpoint (memory, auto_index, <=2 stored points: every history of any length), the thorough tier four.",
        E1NOTE, "4/C06",
    ),
    "C07": (
        "histmc", "model_checking",
        "explicit-state BFS over histories; getter/length/iteration battery at every distinct state against the reference model",
        "At every reachable state (alphabet with embedded line breaks, heterogeneous field sets, two measurements sharing keys) all exploration getters, len, iteration, all() and their per-measurement handle versions are compared with the reference, on both serving paths and both storages.",
        E1NOTE, "4/C07",
    ),
    "C08": (
        "histmc", "model_checking",
        "one explicit-state BFS per process time zone x instant cluster x storage x index path; integer-microsecond reference",
        "For process TZ in {UTC, America/Los_Angeles, Australia/Lord_Howe, Asia/Kathmandu, Europe/London} and clusters of instants one microsecond apart (epoch, DST gap/fold instants incl. a fold at offset zero, naive comparison values, 1700, 1883, 2038, 2106, 2240): all depth-3 histories of inserts / updates (static and callable) / reopen over every representation of the instants (UTC, offsets, zoneinfo, naive local, gap/fold wall clock, None); every stored and returned time must be the exact instant as aware UTC, all six comparison operators and sorted order must agree with integer-microsecond arithmetic.",
        E1NOTE + " Naive values are defined as local time through datetime.astimezone(), which the reference shares with the implementation.", "4/C08",
    ),
    "C09": (
        "univ", "model_checking",
        "breadth-first closure of the query term algebra under the real constructors ~ & |, every term evaluated on every point of a finite universe against an independent evaluator",
        "Every term up to depth 1 over all atoms, depth 2 over 6/10 representatives, depth 3 over 3 representatives (thorough) is built by real constructor calls and evaluated on all 381 universe points (incl. time-less points and keys named like attributes of a query object); a query the DSL fails to construct counts as raising; value must equal the reference evaluator's, be a bool, and no exception may escape.",
        E3NOTE, "4/C09",
    ),
    "C10": (
        "histmc", "model_checking",
        "explicit-state BFS over histories with handle acquisition; every handle operation vs its database form on two replicas of the same state, and vs the reference restricted to the name",
        "At every reachable state each handle write (insert, insert_multiple, remove, remove_all, update forms, update_all) for names m, n, absent (thorough: '') runs on replica A and the filtered database form on replica B: outcome, contents, index validity equal, and equal to the reference; all handle reads/getters compared with the restricted reference; handles held across drop_measurement/remove_all are used.",
        E1NOTE, "4/C10",
    ),
    "C11": (
        "histmc", "model_checking",
        "explicit-state BFS over histories where ~90 faulting calls are executed at every state (a subset as BFS edges); contents and index compared with the reference after each raise",
        "Every faulting call (non-Point inserts, non-Point at each position of insert_multiple, update callables raising at invocation k or returning invalid values, with a half-applied preceding attribute, a user test function inside the query raising on one tag value for update/remove/every read, invalid argument sets, handle variants) at every reachable state: contents must equal the reference (unchanged / plus prefix), a valid index must equal a rebuild, and states reached through faults get all further operations and the read/getter batteries.",
        E1NOTE, "4/C11",
    ),
    "C12": (
        "iofault", "fault_enumeration",
        "exhaustive crash-point enumeration: every raw I/O step boundary of every operation of every BFS-explored history is a crash image recovered by a fresh TinyFlux; real-kill conformance",
        "All histories (BFS, depth<=4/5) over the crash alphabet (incl. reopen, plain and through a with block) on CSV, also opened through a symbolic link and with access_mode 'w+'; the seam numbers every raw call (open, write, truncate, fsync, close, replace, copy steps); the file bytes at every boundary are recovered by a fresh TinyFlux and must equal the contents before or after the operation (insert_multiple: prefix); 200+ boundaries re-validated by os._exit in a child process.",
        FNOTE, "4/C12",
    ),
    "C13": (
        "iofault", "fault_enumeration",
        "exhaustive single-fault injection: an OSError at every raw I/O step (before; after for fsync/close/flush) of every operation of every BFS-explored state, each followed by every continuation of a menu",
        "For every (state, operation) of a BFS (depth<=3/4; flush_on_insert on and off, plain and symlinked path) and every recorded raw step an OSError is injected on a fresh replay; the error must reach the caller, every later read (index-served and scan-served, after a further insert, after reopen) must agree with the object's own storage or raise, and the closed file must decode to the old or new contents.",
        FNOTE, "4/C13",
    ),
    "C14": (
        "univ", "exploration",
        "exhaustive matrix entry point x slot x wrong value x static/callable x selector x configuration x pre-state on the real API",
        "Complete matrix (exhaustive:true) of API entry points x slots x wrongly-typed values (wrong keys also paired with a None value), static and via callables, on 4 configurations and pre-state sizes 0-3 (index-assisted and scan branch): must raise ValueError/TypeError, leave contents unchanged, and all() (also of a reopened CSV copy) must return well-typed values only.",
        E3NOTE, "4/C14",
    ),
    "C15": (
        "histmc", "model_checking",
        "explicit-state BFS over histories on CSV; at every state ~600 read / no-op / faulting / access-mode probe transitions with byte-for-byte and directory-listing oracles",
        "At every reachable state every read, getter, iteration, reindex, reference-no-op removal/update, faulting call and one operation per class under access modes r/a/a+/w/w+/r+ is executed: file bytes unchanged for reads/no-ops/forbidden writes (which must raise OSError); temp-dir and database-dir listings identical before/after every operation, returned or raised.",
        E1NOTE, "4/C15",
    ),
    "C16": (
        "iofault", "model_checking",
        "explicit-state BFS over histories with the raw-I/O seam as recorder at every insert transition; size ladder",
        "Every insert/insert_multiple transition of every reachable state (4 CSV configurations, after early-stopping reads and rewrites): no read step, no truncate below the old size, old bytes a prefix of the new, written bytes equal appended bytes, one constant step profile per configuration (per point); plus pre-filled databases of 10..10000 rows showing the same profile.",
        FNOTE, "4/C16",
    ),
    "C17": (
        "univ", "model_checking",
        "exhaustive enumeration of all ordered pairs of query terms of a closure of the term algebra; equality implies equal hash and equal truth vector",
        "All ordered pairs of depth<=1 terms over a confusable vocabulary (35/72 atoms incl. the two folds of a repeated hour) and depth<=2 terms over 2/4 representatives: q1==q2 implies equal hash and identical evaluation on 384 points; commutativity of & and | for all ordered operand pairs (simple or compound); map-queries equal to nothing.",
        E3NOTE, "4/C17",
    ),
    "C18": (
        "univ", "exploration",
        "exhaustive enumeration of all sorted lists up to length 7/8 over 5-value domains x probes x helpers against linear-scan definitions",
        "Exactly the property's quantifier: all 792 (x3 domains) sorted multisets of length 0-7 x 11 probes x 5 helpers (exhaustive:true), plus float domains one ulp apart and at -inf/-0.0/subnormal/inf.",
        E3NOTE, "4/C18",
    ),
}

NOT_YET = {
    f"C{i:02d}": "check not built yet in this round (a bounded-exhaustive formulation is planned, see DESIGN.md section 4)"
    for i in range(1, 19)
    if f"C{i:02d}" not in CHECKS
}


LADDER_CHECKS = ("C01", "C02", "C03", "C04", "C06", "C07", "C10", "C15")


def build():
    checks = []
    for pid, (engine, cat, tech, text, note, ref) in sorted(CHECKS.items()):
        checks.append(
            {
                "property_id": pid,
                "quick_cmd": f"./run.sh {pid} quick",
                "thorough_cmd": f"./run.sh {pid} thorough",
                "evidence_file": f"/verif/evidence/{pid}.json",
                "replay_cmd_template": "./run.sh replay {path}",
                "engine": engine,
                "level_claimed": {"category": cat, "text": text + (LADDER if pid in LADDER_CHECKS else ""), "design_ref": f"DESIGN.md section {ref} and 8.3b/8.3c"},
                "level_note": note,
                "technique": tech,
            }
        )
    return {
        "version": 1,
        "setup_cmd": "./run.sh selftest",
        "hooks": {
            "guard": "TINYFLUX_VERIF",
            "enable": "none needed: no source hooks exist; the I/O seam rebinds module globals of tinyflux.storages at run time from the harness process",
            "baseline_off_cmd": "cd /repo && /venv/bin/python -m pytest -ra -q -p no:cacheprovider --timeout=900 --continue-on-collection-errors",
            "source_commits": [],
            "add_only": True,
        },
        "engines": [
            {"name": "histmc", "path": "tfmc/explorer.py", "serves_properties": sorted(p for p, v in CHECKS.items() if v[0] == "histmc"),
             "kind_free_text": "explicit-state breadth-first search over operation histories; every transition is a real API call on a real TinyFlux object; canonical state key by generic object-graph walk + file bytes; reference model oracle"},
            {"name": "iofault", "path": "tfmc/ioseam.py", "serves_properties": sorted(p for p, v in CHECKS.items() if v[0] == "iofault"),
             "kind_free_text": "raw-I/O step seam under tinyflux.storages: exhaustive crash-point and error-injection enumeration over all short histories, real-kill conformance"},
            {"name": "univ", "path": "tfmc/univ.py", "serves_properties": sorted(p for p, v in CHECKS.items() if v[0] == "univ"),
             "kind_free_text": "bounded-exhaustive enumeration of finite input/term universes on the real code against a reference function"},
        ],
        "checks": checks,
        "not_applicable": [{"property_id": p, "reason": r} for p, r in sorted(NOT_YET.items())],
        "notes": "See DESIGN.md. Exit codes: 0 held (possibly KNOWN-FINDING lines), 1 VIOLATION, 3 tooling error.",
    }


if __name__ == "__main__":
    m = build()
    with open(os.path.join(VERIF, "MANIFEST.json"), "w") as f:
        json.dump(m, f, indent=1)
        f.write("\n")
    print("wrote MANIFEST.json with", len(m["checks"]), "checks")
