"""Generate /verif/MANIFEST.json from one table (python3 -m tfmc.manifest)."""

import json
import os

VERIF = os.path.dirname(os.path.dirname(os.path.abspath(__file__)))

# id -> (engine, category, technique, level text, level note, design ref)
CHECKS = {
    "C01": (
        "histmc", "model_checking",
        "explicit-state BFS over operation histories on the real TinyFlux objects, canonical-state de-duplication, reference-model oracle at every state",
        "All histories over a colliding operation alphabet (<=N stored points, depth<=D, run to closure where reachable) on {CSV,memory}x{auto_index on,off}; at every distinct state every query of a 200+/800+ term vocabulary x measurement filter is answered by search/count/contains/get/select on the real object and compared with an independent reference evaluation over the state's own contents.",
        "Trusted: CPython determinism under pinned TZ/hash seed/virtual clock; the reference model and query evaluator (tfmc/refmodel.py, tfmc/qast.py); claims are for the explored alphabets and bounds only.",
        "4/C01",
    ),
}

NOT_YET = {
    f"C{i:02d}": "check not built yet in this round (a bounded-exhaustive formulation is planned, see DESIGN.md section 4)"
    for i in range(1, 19)
    if f"C{i:02d}" not in CHECKS
}


def build():
    checks = []
    for pid, (engine, cat, tech, text, note, ref) in sorted(CHECKS.items()):
        checks.append(
            {
                "property_id": pid,
                "quick_cmd": f"./run.sh {pid} quick",
                "thorough_cmd": f"./run.sh {pid} thorough",
                "evidence_file": f"/verif/evidence/{pid}.json",
                "replay_cmd_template": "./run.sh replay {path}",
                "engine": engine,
                "level_claimed": {"category": cat, "text": text, "design_ref": f"DESIGN.md section {ref}"},
                "level_note": note,
                "technique": tech,
            }
        )
    return {
        "version": 1,
        "setup_cmd": "./run.sh selftest",
        "hooks": {
            "guard": "TINYFLUX_VERIF",
            "enable": "none needed: no source hooks exist; the I/O seam rebinds module globals of tinyflux.storages at run time from the harness process",
            "baseline_off_cmd": "cd /repo && /venv/bin/python -m pytest -ra -q -p no:cacheprovider --timeout=900 --continue-on-collection-errors",
            "source_commits": [],
            "add_only": True,
        },
        "engines": [
            {"name": "histmc", "path": "tfmc/explorer.py", "serves_properties": sorted(p for p, v in CHECKS.items() if v[0] == "histmc"),
             "kind_free_text": "explicit-state breadth-first search over operation histories; every transition is a real API call on a real TinyFlux object; canonical state key by generic object-graph walk + file bytes; reference model oracle"},
            {"name": "iofault", "path": "tfmc/ioseam.py", "serves_properties": sorted(p for p, v in CHECKS.items() if v[0] == "iofault"),
             "kind_free_text": "raw-I/O step seam under tinyflux.storages: exhaustive crash-point and error-injection enumeration over all short histories, real-kill conformance"},
            {"name": "univ", "path": "tfmc/univ.py", "serves_properties": sorted(p for p, v in CHECKS.items() if v[0] == "univ"),
             "kind_free_text": "bounded-exhaustive enumeration of finite input/term universes on the real code against a reference function"},
        ],
        "checks": checks,
        "not_applicable": [{"property_id": p, "reason": r} for p, r in sorted(NOT_YET.items())],
        "notes": "See DESIGN.md. Exit codes: 0 held (possibly KNOWN-FINDING lines), 1 VIOLATION, 3 tooling error.",
    }


if __name__ == "__main__":
    m = build()
    with open(os.path.join(VERIF, "MANIFEST.json"), "w") as f:
        json.dump(m, f, indent=1)
        f.write("\n")
    print("wrote MANIFEST.json with", len(m["checks"]), "checks")
