"""Violations -> replay artefacts; known findings (DESIGN 3.6)."""

import hashlib
import json
import os

from . import common

KNOWN_PATH = os.path.join(common.VERIF, "known_findings.json")
REPLAY_DIR = os.environ.get("TFMC_REPLAY_DIR") or os.path.join(common.VERIF, "replays")


def load_known():
    """The committed list of open findings; never written at run time."""
    try:
        with open(KNOWN_PATH) as f:
            d = json.load(f)
    except FileNotFoundError:
        return []
    return d.get("open", [])


def known_for(prop, signature, known):
    for k in known:
        if k.get("property") == prop and k.get("signature") == signature:
            return k
    return None


def write_replay(record):
    """Write a violation record as a replayable artefact; returns its path."""
    os.makedirs(REPLAY_DIR, exist_ok=True)
    enc = common.jenc(record)
    body = json.dumps(enc, indent=1, sort_keys=True, ensure_ascii=True)
    h = hashlib.blake2b((record["property"] + "|" + record["signature"]).encode(), digest_size=5).hexdigest()
    path = os.path.join(REPLAY_DIR, f"{record['property']}-{h}.json")
    with open(path, "w") as f:
        f.write(body + "\n")
    test = os.path.join(REPLAY_DIR, f"test_replay_{record['property']}_{h}.py")
    with open(test, "w") as f:
        f.write(
            '"""Plain pytest replay of a recorded violation (no explorer involved).\n\n'
            f"signature: {record['signature']}\n"
            '"""\n'
            "import os, sys\n"
            f"sys.path.insert(0, {common.VERIF!r})\n"
            "from tfmc import replay\n\n\n"
            "def test_replay():\n"
            f"    reproduced, info = replay.replay_file({path!r})\n"
            "    assert not reproduced, info\n"
        )
    return path


def load_replay(path):
    with open(path) as f:
        return common.jdec(json.load(f))
