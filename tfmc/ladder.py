"""Scale ladder: the same exhaustive exploration, started from *large* databases.

Bounded exploration from the empty database never holds more than N (3-4) points, so a defect guarded
by a size threshold (a fast path for >= 32 items, a batch of 100, a chunk of 512 rows, a cache of 16
slots, a read-ahead buffer of 8 KiB, a staging buffer of 64 KiB) is invisible to it.  A ladder
configuration starts the BFS from a generated database of n points (n on a ladder that steps over
the usual thresholds) and explores every history of depth <= 2 over a small alphabet of operations
chosen to move positions, fill and invalidate caches, rewrite the file and append in bulk.  Nothing
is sampled; the ladder is a deterministic extension of the size axis, reported as such.

Generated points G<i> (i = 0 .. n-1), in time order one second apart:

    measurement   "m" / "n" alternating for i < 10, "big" from then on (so points of other measurements are
                  stored in front of the big one and removing them renumbers its positions)
    tags          i = str(i); a = x if i % 3 == 0 else y; q = a 65-character value with commas, quotes and line breaks for
                  i % 4 == 0 (a quoted multi-line CSV cell roughly every 350 bytes, so that block boundaries of any
                  buffered reader fall inside one in some of the explored alignments), else "plain"
    fields        v = i % 7 (absent for i % 11 == 0), w = i
"""

import datetime as _dt

from . import world as W

LADDER_QUICK = (40, 300)
LADDER_THOROUGH = (40, 300, 1300)


def install(alpha):
    """Make G<i> / H<i> resolvable in the alphabet's point table (lazily, any i)."""
    base = alpha.t[0] + _dt.timedelta(days=1)
    x, y = alpha.x, alpha.y

    class Points(dict):
        def __missing__(self, name):
            if name[:1] in ("G", "H") and name[1:].isdigit():
                i = int(name[1:])
                if name[0] == "H":  # a second family, later in time, used for bulk inserts on top of a ladder database
                    t = base + _dt.timedelta(days=1, seconds=i)
                    spec = (t, "h", {"i": "h%d" % i, "a": y}, {"v": i % 5, "w": -i})
                else:
                    m = ("m" if i % 2 == 0 else "n") if i < 10 else "big"
                    tags = {"i": str(i), "a": x if i % 3 == 0 else y, "q": 'a quoted, "multi-line"\ncell value, long enough\r\nto straddle buffers' if i % 4 == 0 else "plain"}
                    fields = {"w": i}
                    if i % 11:
                        fields["v"] = i % 7
                    spec = (base + _dt.timedelta(seconds=i), m, tags, fields)
                self[name] = spec
                return spec
            raise KeyError(name)

    alpha.points = Points(alpha.points)
    return alpha


BIG = 1300  # beyond 512-row chunks, 1000/1024-item batches and 64 KiB staging buffers


def configs(sizes, storages=("mem", "csv"), autos=(True, False), D=2, big_depth=None):
    """Ladder configurations; with ``big_depth`` the 1300-point rung is added at that (smaller) depth."""
    out = []
    sizes = list(sizes)
    if big_depth is not None and BIG not in sizes:
        sizes.append(BIG)
    for n in sizes:
        for st in storages:
            for auto in autos:
                out.append({
                    "name": f"{st}/{'auto' if auto else 'manual'}/ladder-{n}", "storage": st, "auto_index": auto,
                    "N": n + 400, "D": (big_depth if (n == BIG and big_depth is not None) else D), "ladder": n,
                    "init": (("insert_multiple", tuple("G%d" % i for i in range(n)), None, False, "db"),)
                    + ((("reindex",),) if not auto else ()),
                })
    return out


def ops(alpha, cfg):
    """The ladder's operation alphabet (small; every op chosen to move positions or fill/invalidate something)."""
    n = cfg["ladder"]
    mid = str(n // 2)
    o = [
        # reads that may fill caches / fast paths, as transitions
        ("count", ("cmp", "fields", ("v",), ">=", 3), None),
        ("getter", "get_field_values", "v", "big"),
        ("getter", "get_timestamps", "big"),
        ("read_storm",),
        # writes
        ("remove", ("cmp", "tags", ("i",), "==", "1"), None, "db"),            # an early row of another measurement
        ("remove", ("cmp", "fields", ("v",), "==", 1), None, "db"),            # a sparse set of positions 1, 8, 15, ...
        ("remove", ("not", ("exists", "fields", ("v",))), "big", "db"),       # candidates-only + filter: scan branch
        ("update", ("cmp", "tags", ("i",), "==", mid), W.mkspec(tags={"a": alpha.z}), None, "db"),
        ("update_all", W.mkspec(fields=("fn", "f_inc")), "db"),                # same-width rewrite of every row
        ("insert", "P5", None, False, "db"),
        ("insert_multiple", tuple("H%d" % i for i in range(150)), None, False, "h:big"),   # bulk, through a handle
        ("drop", "n"),
    ]
    if cfg["storage"] == "csv":
        o.append(("get", ("cmp", "tags", ("i",), "==", "0"), None))           # stops at the first row of a big file
    return o
