"""A World is one real TinyFlux database plus the bookkeeping the explorer needs.

``World.build(cfg, history)`` re-materialises the state reached by ``history`` from a freshly
created database; ``World.apply(op)`` performs one public API call with freshly built arguments
and returns its outcome ``("ret", value)`` or ``("exc", TypeName, message)``.
``ref_apply(op, contents, alpha)`` is the reference-model twin of ``apply``.

Operation descriptors are hashable tuples made of plain values (DESIGN 3.1):

  ("insert", pname, measurement|None, compact, via)      via = "db" | "h:<name>"
  ("insert_multiple", (pname,...), measurement|None, compact, via)
  ("remove", ast, measurement|None, via)
  ("drop", name)            ("h_remove_all", name)        ("remove_all",)
  ("update", ast, spec, measurement|None, via)            spec = tuple of (key, value) pairs
  ("update_all", spec, via)
  ("reindex",)   ("reopen",)   ("handle", name)
  ("count"|"get"|"contains"|"search"|"search_unsorted", ast, measurement|None)  reads as transitions
"""

import contextlib
import io
import os

from . import common, qast, refmodel

OK_NONE = ("ret", None)


def spec_dict(spec):
    """Update spec tuple -> dict; mapping values are stored as ("d", ((k, v), ...))."""
    out = {}
    for k, v in spec:
        if isinstance(v, tuple) and len(v) == 2 and v[0] == "d":
            v = dict(v[1])
        out[k] = v
    return out


def mkspec(**kw):
    items = []
    for k in sorted(kw):
        v = kw[k]
        if isinstance(v, dict):
            v = ("d", tuple(v.items()))
        elif isinstance(v, list):
            v = tuple(v)
        items.append((k, v))
    return tuple(items)


def real_update_kwargs(spec):
    """Keyword arguments for the real update call (fresh callables, fresh dicts)."""
    out = {}
    for k, v in spec_dict(spec).items():
        if refmodel._is_fn(v):
            out[k] = _fresh_callable(refmodel.UPD_FN[v[1]])
        elif isinstance(v, dict):
            out[k] = dict(v)
        elif isinstance(v, tuple):
            out[k] = list(v)
        else:
            out[k] = v
    return out


def _fresh_callable(f):
    def g(old):
        return f(old)

    g.__name__ = getattr(f, "__name__", "fn")
    return g


class World:
    def __init__(self, cfg, alpha):
        self.cfg = cfg
        self.alpha = alpha
        self.handles = {}
        self.last_read = None
        self.stdout = ""
        self.path = None
        if cfg["storage"] == "csv":
            common.wipe_dir(common.db_dir())
            common.wipe_dir(common.tmp_dir())
            self.path = os.path.join(common.db_dir(), "db.csv")
        common.reset_clock(cfg.get("clock_step", 0))
        self.db = self._open()

    # ------------------------------------------------------------------ construction
    def _open(self, **override):
        from tinyflux import TinyFlux
        from tinyflux.storages import MemoryStorage

        cfg = self.cfg
        if cfg["storage"] == "mem":
            return TinyFlux(storage=MemoryStorage, auto_index=cfg["auto_index"])
        opts = dict(cfg.get("csv", {}))
        opts.update(override)
        return TinyFlux(self.path, auto_index=cfg["auto_index"], **opts)

    @classmethod
    def build(cls, cfg, alpha, history):
        w = cls(cfg, alpha)
        for op in history:
            w.apply(op)
        return w

    def close(self):
        try:
            self.db.close()
        except Exception:
            pass

    # ------------------------------------------------------------------ helpers
    def _target(self, via):
        if via == "db":
            return self.db
        name = via[2:]
        h = self.handles.get(name)
        return h if h is not None else self.db.measurement(name)

    # ------------------------------------------------------------------ one transition
    def apply(self, op):
        buf = io.StringIO()
        try:
            with contextlib.redirect_stdout(buf):
                val = self._do(op)
            out = ("ret", val)
        except BaseException as e:  # noqa
            if isinstance(e, (KeyboardInterrupt, SystemExit, common.ToolingError)):
                raise
            out = ("exc", type(e).__name__, str(e)[:200])
        self.stdout = buf.getvalue()
        self.last_read = (op[0], out) if op[0] in READ_OPS else None
        return out

    def _do(self, op):
        k = op[0]
        db, A = self.db, self.alpha
        if k == "insert":
            _, pname, meas, compact, via = op
            tgt = self._target(via)
            if via == "db":
                kw = {}
                if meas is not None:
                    kw["measurement"] = meas
                if compact:
                    kw["compact_key_prefixes"] = True
                return tgt.insert(A.mk_point(pname), **kw)
            return tgt.insert(A.mk_point(pname))
        if k == "insert_multiple":
            _, pnames, meas, compact, via = op
            tgt = self._target(via)
            pts = [A.mk_point(n) for n in pnames]
            if via == "db":
                kw = {}
                if meas is not None:
                    kw["measurement"] = meas
                if compact:
                    kw["compact_key_prefixes"] = True
                return tgt.insert_multiple(pts, **kw)
            return tgt.insert_multiple(pts)
        if k == "remove":
            _, ast, meas, via = op
            tgt = self._target(via)
            if via == "db":
                return tgt.remove(qast.build(ast), meas) if meas is not None else tgt.remove(qast.build(ast))
            return tgt.remove(qast.build(ast))
        if k == "drop":
            return db.drop_measurement(op[1])
        if k == "h_remove_all":
            return self._target("h:" + op[1]).remove_all()
        if k == "remove_all":
            return db.remove_all()
        if k == "update":
            _, ast, spec, meas, via = op
            tgt = self._target(via)
            kw = real_update_kwargs(spec)
            if via == "db":
                if meas is not None:
                    kw["_measurement"] = meas
                return tgt.update(qast.build(ast), **kw)
            return tgt.update(qast.build(ast), **kw)
        if k == "update_all":
            _, spec, via = op
            return self._target(via).update_all(**real_update_kwargs(spec))
        if k == "reindex":
            return db.reindex()
        if k == "reopen":
            db.close()
            self.handles = {}
            self.db = self._open()
            return None
        if k == "handle":
            self.handles[op[1]] = db.measurement(op[1])
            return None
        if k in ("count", "contains"):
            _, ast, meas = op
            f = getattr(db, k)
            return f(qast.build(ast), meas) if meas is not None else f(qast.build(ast))
        if k == "get":
            _, ast, meas = op
            r = db.get(qast.build(ast), meas) if meas is not None else db.get(qast.build(ast))
            return None if r is None else refmodel.rp_of_point(r)
        if k in ("search", "search_unsorted"):
            _, ast, meas = op
            r = db.search(qast.build(ast), meas, sorted=(k == "search"))
            return [refmodel.rp_of_point(p) for p in r]
        if k == "len":
            return len(db)
        raise ValueError(f"unknown op {op!r}")

    # ------------------------------------------------------------------ observation
    def stored(self):
        """Deep copy of the logical contents, read through the storage object itself."""
        return [refmodel.rp_of_point(p) for p in self.db.storage.read()]

    def file_bytes(self):
        if self.path is None:
            return None
        try:
            with open(self.path, "rb") as f:
                return f.read()
        except FileNotFoundError:
            return None

    def tmp_listing(self):
        return sorted(os.listdir(common.tmp_dir()))

    def db_listing(self):
        return sorted(os.listdir(common.db_dir()))


READ_OPS = ("count", "get", "contains", "search", "search_unsorted", "len")
NONMUTATING = READ_OPS + ("reindex", "reopen", "handle")


# ---------------------------------------------------------------------------- reference twin


def ref_apply(op, contents, alpha, now=common.CLOCK_START):
    """Reference semantics: (expected contents after, expected outcome).

    ``contents`` is not modified.  The expected outcome is ("ret", value).
    """
    k = op[0]
    C = refmodel.contents_copy(contents)
    if k == "insert":
        _, pname, meas, compact, via = op
        m = meas if via == "db" else via[2:]
        return C + [alpha.ref_point(pname, m, now)], ("ret", 1)
    if k == "insert_multiple":
        _, pnames, meas, compact, via = op
        m = meas if via == "db" else via[2:]
        return C + [alpha.ref_point(n, m, now) for n in pnames], ("ret", len(pnames))
    if k == "remove":
        _, ast, meas, via = op
        m = meas if via == "db" else via[2:]
        new, n = refmodel.remove(C, refmodel.q_pred(ast), m)
        return new, ("ret", n)
    if k in ("drop", "h_remove_all"):
        new, n = refmodel.remove(C, lambda rp: True, op[1])
        return new, ("ret", n)
    if k == "remove_all":
        return [], OK_NONE
    if k == "update":
        _, ast, spec, meas, via = op
        m = meas if via == "db" else via[2:]
        new, n = refmodel.update(C, refmodel.q_pred(ast), spec_dict(spec), m)
        return new, ("ret", n)
    if k == "update_all":
        _, spec, via = op
        m = None if via == "db" else via[2:]
        new, n = refmodel.update(C, lambda rp: True, spec_dict(spec), m)
        return new, ("ret", n)
    if k in ("reindex", "reopen", "handle"):
        return C, OK_NONE
    if k == "count":
        return C, ("ret", len(refmodel.select(C, refmodel.q_pred(op[1]), op[2])))
    if k == "contains":
        return C, ("ret", bool(refmodel.select(C, refmodel.q_pred(op[1]), op[2])))
    if k == "get":
        sel = refmodel.select(C, refmodel.q_pred(op[1]), op[2])
        return C, ("ret", C[sel[0]] if sel else None)
    if k == "search":
        return C, ("ret", refmodel.search(C, op[1], op[2], True))
    if k == "search_unsorted":
        return C, ("ret", refmodel.search(C, op[1], op[2], False))
    if k == "len":
        return C, ("ret", len(C))
    raise ValueError(f"unknown op {op!r}")


def op_inserts(op):
    """How many points an op adds (for the size bound)."""
    if op[0] == "insert":
        return 1
    if op[0] == "insert_multiple":
        return len(op[1])
    return 0


def pretty_op(op):
    k = op[0]
    parts = []
    for a in op[1:]:
        if isinstance(a, tuple) and a and a[0] in ("cmp", "exists", "regex", "test", "noop", "not", "and", "or"):
            parts.append(qast.pretty(a))
        elif isinstance(a, tuple) and a and isinstance(a[0], tuple):
            parts.append("{" + ", ".join(f"{x}={y!r}" for x, y in a) + "}")
        else:
            parts.append(repr(a))
    return f"{k}({', '.join(parts)})"
