"""A World is one real TinyFlux database plus the bookkeeping the explorer needs.

``World.build(cfg, history)`` re-materialises the state reached by ``history`` from a freshly
created database; ``World.apply(op)`` performs one public API call with freshly built arguments
and returns its outcome ``("ret", value)`` or ``("exc", TypeName, message)``.
``ref_apply(op, contents, alpha)`` is the reference-model twin of ``apply``.

Operation descriptors are hashable tuples made of plain values (DESIGN 3.1):

  ("insert", pname, measurement|None, compact, via)      via = "db" | "h:<name>"
  ("insert_multiple", (pname,...), measurement|None, compact, via)
  ("remove", ast, measurement|None, via)
  ("drop", name)            ("h_remove_all", name)        ("remove_all",)
  ("update", ast, spec, measurement|None, via)            spec = tuple of (key, value) pairs
  ("update_all", spec, via)
  ("reindex",)   ("reopen",) | ("reopen", "with")   ("handle", name)
  ("count"|"get"|"contains"|"search"|"search_unsorted", ast, measurement|None)  reads as transitions
"""

import contextlib
import io
import os
import re

from . import common, qast, refmodel

OK_NONE = ("ret", None)


def spec_dict(spec):
    """Update spec tuple -> dict; mapping values are stored as ("d", ((k, v), ...))."""
    out = {}
    for k, v in spec:
        if isinstance(v, tuple) and len(v) == 2 and v[0] == "d":
            v = dict(v[1])
        out[k] = v
    return out


def mkspec(**kw):
    items = []
    for k in sorted(kw):
        v = kw[k]
        if isinstance(v, dict):
            v = ("d", tuple(v.items()))
        elif isinstance(v, list):
            v = tuple(v)
        items.append((k, v))
    return tuple(items)


def real_update_kwargs(spec):
    """Keyword arguments for the real update call (fresh callables, fresh dicts)."""
    out = {}
    for k, v in spec_dict(spec).items():
        if refmodel._is_fn(v):
            out[k] = _fresh_callable(refmodel.UPD_FN[v[1]])
        elif isinstance(v, dict):
            out[k] = dict(v)
        elif refmodel.is_oneshot(v):
            out[k] = iter(list(v[1]))
        elif isinstance(v, tuple):
            out[k] = list(v)
        else:
            out[k] = v
    return out


def _fresh_callable(f):
    def g(old):
        return f(old)

    g.__name__ = getattr(f, "__name__", "fn")
    return g


class Interrupted(BaseException):
    """Stands for KeyboardInterrupt / SystemExit arriving inside an operation (nth < 0 in update_raise)."""


class World:
    def __init__(self, cfg, alpha):
        self.cfg = cfg
        self.alpha = alpha
        self.handles = {}
        self.last_read = None
        self.stdout = ""
        self.path = None
        if cfg["storage"] == "csv":
            from .ioseam import SEAM

            if SEAM.installed:
                SEAM.quiesce()
            common.wipe_dir(common.db_dir())
            common.wipe_dir(common.tmp_dir())
            self.path = os.path.join(common.db_dir(), "db.csv")
            if cfg.get("symlink"):
                # the database is opened through a symbolic link to a file in another directory
                real = os.path.join(common.db_dir(), "elsewhere")
                os.makedirs(real)
                open(os.path.join(real, "real.csv"), "w").close()
                os.symlink(os.path.join(real, "real.csv"), self.path)
        common.reset_clock(cfg.get("clock_step", 0))
        self.db = self._open()

    # ------------------------------------------------------------------ construction
    def _open(self, **override):
        from tinyflux import TinyFlux
        from tinyflux.storages import MemoryStorage

        cfg = self.cfg
        if cfg["storage"] == "mem":
            return TinyFlux(storage=MemoryStorage, auto_index=cfg["auto_index"])
        opts = dict(cfg.get("csv", {}))
        opts.update(override)
        return TinyFlux(self.path, auto_index=cfg["auto_index"], **opts)

    @classmethod
    def build(cls, cfg, alpha, history):
        w = cls(cfg, alpha)
        for op in history:
            w.apply(op)
        return w

    def close(self):
        try:
            self.db.close()
        except Exception:
            pass

    # ------------------------------------------------------------------ helpers
    def _target(self, via):
        if via == "db":
            return self.db
        name = via[2:]
        h = self.handles.get(name)
        return h if h is not None else self.db.measurement(name)

    # ------------------------------------------------------------------ one transition
    def apply(self, op):
        buf = io.StringIO()
        try:
            with contextlib.redirect_stdout(buf):
                val = self._do(op)
            out = ("ret", val)
        except BaseException as e:  # noqa
            if isinstance(e, (KeyboardInterrupt, SystemExit, common.ToolingError)):
                raise
            out = ("exc", type(e).__name__, str(e)[:200])
        self.stdout = buf.getvalue()
        self.last_read = (op[0], out) if op[0] in READ_OPS else None
        return out

    def _do(self, op):
        k = op[0]
        db, A = self.db, self.alpha
        if k == "insert":
            _, pname, meas, compact, via = op
            tgt = self._target(via)
            if via == "db":
                kw = {}
                if meas is not None:
                    kw["measurement"] = meas
                if compact:
                    kw["compact_key_prefixes"] = True
                return tgt.insert(A.mk_point(pname), **kw)
            return tgt.insert(A.mk_point(pname))
        if k == "insert_multiple":
            _, pnames, meas, compact, via = op
            tgt = self._target(via)
            pts = [A.mk_point(n) for n in pnames]
            if via == "db":
                kw = {}
                if meas is not None:
                    kw["measurement"] = meas
                if compact:
                    kw["compact_key_prefixes"] = True
                return tgt.insert_multiple(pts, **kw)
            return tgt.insert_multiple(pts)
        if k == "remove":
            _, ast, meas, via = op
            tgt = self._target(via)
            if via == "db":
                return tgt.remove(qast.build(ast), meas) if meas is not None else tgt.remove(qast.build(ast))
            return tgt.remove(qast.build(ast))
        if k == "drop":
            return db.drop_measurement(op[1])
        if k == "h_remove_all":
            return self._target("h:" + op[1]).remove_all()
        if k == "remove_all":
            return db.remove_all()
        if k == "update":
            _, ast, spec, meas, via = op
            tgt = self._target(via)
            kw = real_update_kwargs(spec)
            if via == "db":
                if meas is not None:
                    kw["_measurement"] = meas
                return tgt.update(qast.build(ast), **kw)
            return tgt.update(qast.build(ast), **kw)
        if k == "update_all":
            _, spec, via = op
            return self._target(via).update_all(**real_update_kwargs(spec))
        if k == "reindex":
            return db.reindex()
        if k == "reopen":
            if op[1:] == ("with",):
                with db as entered:  # leaving the context closes the database
                    assert entered is db
            else:
                db.close()
            self.handles = {}
            self.db = self._open()
            return None
        if k == "handle":
            self.handles[op[1]] = db.measurement(op[1])
            return None
        if k in ("count", "contains"):
            _, ast, meas = op
            f = getattr(db, k)
            return f(qast.build(ast), meas) if meas is not None else f(qast.build(ast))
        if k == "get":
            _, ast, meas = op
            r = db.get(qast.build(ast), meas) if meas is not None else db.get(qast.build(ast))
            return None if r is None else refmodel.rp_of_point(r)
        if k in ("search", "search_unsorted"):
            _, ast, meas = op
            r = db.search(qast.build(ast), meas, sorted=(k == "search"))
            return [refmodel.rp_of_point(p) for p in r]
        if k == "len":
            return len(db)
        if k == "read_storm":
            # two dozen distinct (hashable) queries in a row: enough to wrap any small query cache
            return [db.count(qast.build(a)) for a in STORM]
        if k in FAULT_OPS:
            return self._do_fault(op)
        if k == "getter":
            # ("getter", name, args...) - exploration getters / iteration as operations (C15)
            name = op[1]
            if name == "iter":
                return [refmodel.rp_of_point(p) for p in iter(db)]
            if name == "all":
                return [refmodel.rp_of_point(p) for p in db.all(sorted=op[2])]
            if name == "h.iter":
                return [refmodel.rp_of_point(p) for p in iter(db.measurement(op[2]))]
            if name == "h.len":
                return len(db.measurement(op[2]))
            r = getattr(db, name)(*[list(a) if isinstance(a, tuple) else a for a in op[2:]])
            return [x for x in r] if isinstance(r, list) else r
        if k == "select":
            _, keys, ast, meas = op
            return db.select(list(keys) if isinstance(keys, tuple) else keys, qast.build(ast), meas)
        raise ValueError(f"unknown op {op!r}")

    def _do_fault(self, op):
        """Calls that must raise (C11/C14/C15); descriptors documented next to FAULT_OPS."""
        k = op[0]
        db, A = self.db, self.alpha
        if k == "bad_insert":
            return self._target(op[2]).insert(BAD_VALUES[op[1]]())
        if k == "bad_insert_multiple":
            _, pnames, pos, wid, via = op
            pts = [A.mk_point(n) for n in pnames]
            if wid == "genraise":
                def gen():
                    for i, p in enumerate(pts):
                        if i == pos:
                            raise ValueError("the caller's iterable failed")  # not a TypeError
                        yield p
                    raise ValueError("the caller's iterable failed")

                return self._target(via).insert_multiple(gen())
            pts.insert(pos, BAD_VALUES[wid]())
            return self._target(via).insert_multiple(pts)
        if k == "update_raise":
            _, ast, attr, nth, pre_attr, meas, via = op
            kw = {}
            if pre_attr == "time":
                kw["time"] = A.t[3]
            elif pre_attr == "measurement":
                kw["measurement"] = "n"
            elif pre_attr == "tags":
                kw["tags"] = {"b": A.q}
            calls = [0]

            def boom(old):
                calls[0] += 1
                if calls[0] >= nth:
                    if nth < 0:
                        raise Interrupted("interrupted inside a user callable")  # not an Exception subclass
                    raise RuntimeError("user callable failed")
                return {"time": A.t[0], "measurement": "n", "tags": {"a": A.z}, "fields": {"w": 9}}[attr]

            kw[attr] = boom
            tgt = self._target(via)
            if via == "db" and meas is not None:
                kw["_measurement"] = meas
            if ast is None:
                return tgt.update_all(**kw)
            return tgt.update(qast.build(ast), **kw)
        if k == "query_raise":
            _, call, trig, meas, via = op
            from tinyflux import TagQuery

            def picky(v):
                if v == trig:
                    raise RuntimeError("user test function failed")
                return True

            q = TagQuery().a.test(picky)
            tgt = self._target(via)
            scoped = via == "db" and meas is not None
            if call == "update":
                kw = {"tags": {"b": A.q}}
                if scoped:
                    kw["_measurement"] = meas
                return tgt.update(q, **kw)
            if call == "remove":
                return tgt.remove(q, meas) if scoped else tgt.remove(q)
            if call == "search":
                return len(tgt.search(q, meas) if scoped else tgt.search(q))
            if call == "select":
                return len(tgt.select("tags.a", q, meas) if scoped else tgt.select("tags.a", q))
            r = getattr(tgt, call)(q, meas) if scoped else getattr(tgt, call)(q)  # count / contains / get
            return r if call != "get" or r is None else refmodel.rp_of_point(r)
        if k == "update_badret":
            _, ast, attr, pre_attr, meas, via = op
            kw = {}
            if pre_attr == "time":
                kw["time"] = A.t[3]
            elif pre_attr == "tags":
                kw["tags"] = {"b": A.q}
            bad = {"time": "2021-01-01", "measurement": 5, "tags": {"a": 1}, "fields": {"v": "s"}}[attr]
            kw[attr] = lambda old: bad
            tgt = self._target(via)
            if via == "db" and meas is not None:
                kw["_measurement"] = meas
            if ast is None:
                return tgt.update_all(**kw)
            return tgt.update(qast.build(ast), **kw)
        if k == "bad_args":
            kind = op[1]
            from tinyflux import TagQuery

            q = TagQuery().noop()
            if kind == "update-no-attr":
                return db.update(q)
            if kind == "update-non-query":
                return db.update(3, tags={"a": "b"})
            if kind == "update-bad-unset":
                return db.update(q, unset_tags=5)
            if kind == "update-bad-static-tags":
                return db.update(q, tags={"a": 1})
            if kind == "update-bad-static-time":
                return db.update(q, time="yesterday")
            if kind == "select-bad-keys":
                return db.select(("timestamp",), q)
            if kind == "select-non-iterable":
                return db.select(3, q)
            if kind == "search-non-query":
                return db.search(3)
            if kind == "update_all-no-attr":
                return db.update_all()
            if kind == "h.update-bad-fields":
                return db.measurement("m").update(q, fields={"a": "a"})
            raise ValueError(kind)
        raise ValueError(op)

    # ------------------------------------------------------------------ observation
    def stored(self):
        """Deep copy of the logical contents, read through the storage object itself."""
        return [refmodel.rp_of_point(p) for p in self.db.storage.read()]

    def file_bytes(self):
        if self.path is None:
            return None
        try:
            with open(self.path, "rb") as f:
                return f.read()
        except FileNotFoundError:
            return None

    def tmp_listing(self):
        return sorted(_norm_name(n) for n in os.listdir(common.tmp_dir()))

    def db_listing(self):
        out = [_norm_name(n) for n in os.listdir(common.db_dir())]
        real = os.path.join(common.db_dir(), "elsewhere")  # the link target's directory of a symlinked-path configuration
        if os.path.isdir(real):
            out += ["elsewhere/" + _norm_name(n) for n in os.listdir(real)]
        return sorted(out)


_TMPNAME = re.compile(r"^tmp[A-Za-z0-9_]{8}")


def _norm_name(n):
    """Random temp-file names are normalised so that observations are deterministic."""
    return _TMPNAME.sub("tmp<random>", n)


READ_OPS = ("count", "get", "contains", "search", "search_unsorted", "len", "getter", "select", "read_storm")
STORM = ([("cmp", "tags", ("i",), "==", "no-such")] + [("cmp", "tags", ("i",), "==", str(k)) for k in range(1, 12)]
         + [("cmp", "fields", ("w",), "==", k) for k in range(12)])  # the first one matches nothing: asked again later, it must still
NONMUTATING = READ_OPS + ("reindex", "reopen", "handle")

# Calls that must raise:
#   ("bad_insert", wid, via)                          insert of a non-Point
#   ("bad_insert_multiple", (pnames), pos, wid, via)  non-Point at position pos among valid points
#   ("update_raise", ast|None, attr, nth, pre_attr|None, meas, via)
#        update (update_all when ast is None) whose ``attr`` callable raises RuntimeError on its
#        nth invocation, optionally preceded in the same call by a successful static ``pre_attr``
#   ("update_badret", ast|None, attr, pre_attr|None, meas, via)   callable returns an invalid value
#   ("bad_args", kind)                                invalid argument combinations
#   ("query_raise", call, trigger, meas, via)
#        update / remove / count / contains / get / search / select with the query TagQuery().a.test(f) where the
#        user's f raises RuntimeError on the tag value ``trigger`` and is True otherwise (the update sets tag b)
FAULT_OPS = ("bad_insert", "bad_insert_multiple", "update_raise", "update_badret", "bad_args", "query_raise")
BAD_VALUES = {"int": lambda: 3, "str": lambda: "p", "None": lambda: None, "dict": lambda: {"time": 1}}


# ---------------------------------------------------------------------------- reference twin


def ref_apply(op, contents, alpha, now=common.CLOCK_START):
    """Reference semantics: (expected contents after, expected outcome).

    ``contents`` is not modified.  The expected outcome is ("ret", value).
    """
    k = op[0]
    C = refmodel.contents_copy(contents)
    if k == "insert":
        _, pname, meas, compact, via = op
        m = meas if via == "db" else via[2:]
        return C + [alpha.ref_point(pname, m, now)], ("ret", 1)
    if k == "insert_multiple":
        _, pnames, meas, compact, via = op
        m = meas if via == "db" else via[2:]
        return C + [alpha.ref_point(n, m, now) for n in pnames], ("ret", len(pnames))
    if k == "remove":
        _, ast, meas, via = op
        m = meas if via == "db" else via[2:]
        new, n = refmodel.remove(C, refmodel.q_pred(ast), m)
        return new, ("ret", n)
    if k in ("drop", "h_remove_all"):
        new, n = refmodel.remove(C, lambda rp: True, op[1])
        return new, ("ret", n)
    if k == "remove_all":
        return [], OK_NONE
    if k == "update":
        _, ast, spec, meas, via = op
        m = meas if via == "db" else via[2:]
        new, n = refmodel.update(C, refmodel.q_pred(ast), spec_dict(spec), m)
        return new, ("ret", n)
    if k == "update_all":
        _, spec, via = op
        m = None if via == "db" else via[2:]
        new, n = refmodel.update(C, lambda rp: True, spec_dict(spec), m)
        return new, ("ret", n)
    if k in ("reindex", "reopen", "handle"):
        return C, OK_NONE
    if k == "count":
        return C, ("ret", len(refmodel.select(C, refmodel.q_pred(op[1]), op[2])))
    if k == "contains":
        return C, ("ret", bool(refmodel.select(C, refmodel.q_pred(op[1]), op[2])))
    if k == "get":
        sel = refmodel.select(C, refmodel.q_pred(op[1]), op[2])
        return C, ("ret", C[sel[0]] if sel else None)
    if k == "search":
        return C, ("ret", refmodel.search(C, op[1], op[2], True))
    if k == "search_unsorted":
        return C, ("ret", refmodel.search(C, op[1], op[2], False))
    if k == "len":
        return C, ("ret", len(C))
    if k == "read_storm":
        return C, ("ret", [len(refmodel.select(C, refmodel.q_pred(a), None)) for a in STORM])
    if k == "bad_insert_multiple":
        _, pnames, pos, wid, via = op
        m = None if via == "db" else via[2:]
        return C + [alpha.ref_point(n, m, now) for n in pnames[:pos]], ("exc",)
    if k == "update_raise":
        # raises only if the callable is invoked often enough: nth <= number of selected points
        _, ast, attr, nth, pre_attr, meas, via = op
        m = meas if via == "db" else via[2:]
        pred = (lambda rp: True) if ast is None else refmodel.q_pred(ast)
        nsel = len(refmodel.select(C, pred, m))
        if nsel >= max(nth, 1):
            return C, ("exc",)
        return None, None  # completes normally: not a fault here (callers skip it via fault_enabled)
    if k == "update_badret":
        _, ast, attr, pre_attr, meas, via = op
        m = meas if via == "db" else via[2:]
        pred = (lambda rp: True) if ast is None else refmodel.q_pred(ast)
        if refmodel.select(C, pred, m):
            return C, ("exc",)
        return C, ("ret", 0)
    if k in ("bad_insert", "bad_args", "query_raise"):
        return C, ("exc",)
    if k == "select":
        return C, ("ret", refmodel.select_keys(C, list(op[1]) if isinstance(op[1], tuple) else op[1], op[2], op[3]))
    if k == "getter":
        name = op[1]
        if name == "iter":
            return C, ("ret", C)
        if name == "all":
            return C, ("ret", sorted(C, key=lambda rp: rp[0]) if op[2] else C)
        if name == "h.iter":
            return C, ("ret", [rp for rp in C if rp[1] == op[2]])
        if name == "h.len":
            return C, ("ret", len([rp for rp in C if rp[1] == op[2]]))
        f = getattr(refmodel, name)
        return C, ("ret", f(C, *[list(a) if isinstance(a, tuple) else a for a in op[2:]]))
    raise ValueError(f"unknown op {op!r}")


def fault_enabled(op, contents):
    """A fault op is only a fault when the faulty callable is actually reached."""
    if op[0] == "update_raise":
        _, ast, attr, nth, pre_attr, meas, via = op
        m = meas if via == "db" else via[2:]
        pred = (lambda rp: True) if ast is None else refmodel.q_pred(ast)
        return len(refmodel.select(contents, pred, m)) >= max(nth, 1)
    if op[0] == "query_raise":
        # the user's function is certainly reached when a point in scope carries the trigger value
        _, call, trig, meas, via = op
        m = meas if via == "db" else via[2:]
        return any(rp[2].get("a") == trig and (m is None or rp[1] == m) for rp in contents)
    return True


def op_inserts(op):
    """How many points an op adds (for the size bound)."""
    if op[0] == "insert":
        return 1
    if op[0] == "insert_multiple":
        return len(op[1])
    return 0


def pretty_op(op):
    k = op[0]
    parts = []
    for a in op[1:]:
        if isinstance(a, tuple) and a and a[0] in ("cmp", "exists", "regex", "test", "noop", "not", "and", "or"):
            parts.append(qast.pretty(a))
        elif isinstance(a, tuple) and a and isinstance(a[0], tuple):
            parts.append("{" + ", ".join(f"{x}={y!r}" for x, y in a) + "}")
        else:
            parts.append(repr(a))
    return f"{k}({', '.join(parts)})"
