"""E3 `univ`: bounded-exhaustive enumeration of finite universes, sharded over worker processes.

A check provides ``universe_size()`` and ``run_range(lo, hi) -> (violations, counters, samples)``;
every index in [0, size) is evaluated exactly once (no sampling).
"""

import collections
import multiprocessing
import time

from . import common
from .checks import base

_CTX = {}


def _init(check):
    common.scratch_root()
    _CTX["check"] = check
    check.worker_init()


def _run(rng):
    lo, hi = rng
    return _CTX["check"].run_range(lo, hi)


class UnivCheck:
    prop = "C00"
    level = "exploration"
    engine = "univ"
    assumptions = [
        "CPython interpreter semantics are deterministic for the explored calls",
        "the reference functions in the check module are a faithful reading of the property statement",
        "claims hold for the enumerated finite universe only",
    ]

    def __init__(self, tier, seed):
        self.tier = tier
        self.seed = seed

    def worker_init(self):
        common.import_tinyflux()

    def universe_size(self):
        raise NotImplementedError

    def run_range(self, lo, hi):
        raise NotImplementedError

    def rule(self):
        return ""

    def coverage_extra(self, counters):
        return {}

    def shard(self, n, workers):
        per = max(1, min(50000, n // (workers * 8) or 1))
        return [(i, min(n, i + per)) for i in range(0, n, per)]

    def run(self, log=print):
        t0 = time.time()
        n = self.universe_size()
        workers = common.ncpu()
        viols, vcount = [], collections.Counter()
        counters = collections.Counter()
        samples = []
        ctx = multiprocessing.get_context("fork")
        with ctx.Pool(workers, initializer=_init, initargs=(self,)) as pool:
            done = 0
            for v, c, smp in pool.imap(_run, self.shard(n, workers)):
                counters.update(c)
                for x in v:
                    x.setdefault("property", self.prop)
                    x.setdefault("kind", "input")
                    vcount[x["signature"]] += 1
                    if vcount[x["signature"]] == 1:
                        viols.append(x)
                if len(samples) < 8:
                    samples += smp[: 8 - len(samples)]
        log(f"  universe {n} elements, {dict(counters)}")
        distinct = counters.pop("__distinct_nontrivial", None)
        cov = {
            "evaluations": int(counters.get("evaluations", n)),
            "distinct_nontrivial": int(distinct if distinct is not None else n),
            "rule": self.rule(),
            "samples": samples or [{"note": "empty"}],
            "exhaustive": True,
            "universe_size": n,
            "counters": dict(sorted(counters.items())),
        }
        cov.update(self.coverage_extra(counters))
        return base.finalize(self, viols, vcount, cov, t0, log)
