"""E2 `iofault`: the raw-I/O step seam under tinyflux.storages (DESIGN 3.3).

The module globals ``open``, ``NamedTemporaryFile``, ``os`` and ``shutil`` of tinyflux.storages are
rebound (from the harness process; no source hook) to proxies that execute every raw operation on
the *real files* and number it as a **step** with a before- and an after-hook:

    open  readinto  write  seek  truncate  text-close  close  fsync  flush*  unlink  rename  replace
    copy-open-dst  copy-chunk  copy-close  copymode

(* the text layer's flush() is a step only when it actually pushed bytes to the raw file.)

Because the files are real, what an independent ``open(path,'rb').read()`` sees at a step boundary
is exactly what survives the death of the process at that boundary (user-space buffers are lost,
the page cache is not).  A *plan* decides what happens at a step: nothing (record), take a crash
image, raise an injected OSError before/after the step, or really ``os._exit`` (conformance).
"""

import builtins
import errno
import io
import os as _os
import shutil as _shutil
import tempfile as _tempfile
import weakref

from . import common


class Plan:
    """What to do at step boundaries of the current recording."""

    def __init__(self, watch=None, inject=None, kill=None, snapshot=False):
        self.watch = watch            # path of the database file to snapshot
        self.inject = inject          # (step index, "before"|"after", errno) or None
        self.kill = kill              # (step index, "before"|"after") -> os._exit(137)
        self.snapshot = snapshot
        self.steps = []               # [(kind, detail)]
        self.images = []              # [(step index or -1, "before"/"after", bytes|None)]
        self.injected = None          # the OSError instance raised, once raised
        self.armed = True


class Seam:
    def __init__(self):
        self.plan = None
        self.installed = False
        self.raw_writes = 0
        self.live = weakref.WeakSet()

    # ------------------------------------------------------------------ install / uninstall
    def install(self):
        import tinyflux.storages as S

        if self.installed:
            return
        self._orig = (S.__dict__.get("open", None), S.NamedTemporaryFile, S.os, S.__dict__.get("shutil", None))
        S.open = self.open
        S.NamedTemporaryFile = self.named_temporary_file
        S.os = OsProxy(self)
        S.shutil = ShutilProxy(self)
        self.installed = True

    def uninstall(self):
        import tinyflux.storages as S

        if not self.installed:
            return
        o, n, os_, sh = self._orig
        if o is None:
            del S.open
        else:
            S.open = o
        S.NamedTemporaryFile, S.os = n, os_
        if sh is None:
            S.__dict__.pop("shutil", None)
        else:
            S.shutil = sh
        self.installed = False

    def quiesce(self):
        """Close every file object the seam ever handed out and that is still open.

        Called before a new world is built: a handle leaked by an earlier (faulted) world must not be
        finalised by the garbage collector in the middle of a later recording, where its close would
        show up as a step of somebody else's operation.
        """
        saved, self.plan = self.plan, None
        for t in list(self.live):
            try:
                if isinstance(t, RecText):
                    t._delete_on_close = False
                t.close()
            except Exception:
                try:
                    (t.buffer.raw if isinstance(t, RecText) else getattr(t, "raw", t)).close()
                except Exception:
                    pass
        self.live.clear()
        self.plan = saved

    # ------------------------------------------------------------------ steps
    def begin(self, plan):
        self.plan = plan
        if plan.snapshot:
            plan.images.append((-1, "after", self._image()))
        return plan

    def end(self):
        p, self.plan = self.plan, None
        return p

    def _image(self):
        p = self.plan
        if p is None or p.watch is None:
            return None
        try:
            with builtins.open(p.watch, "rb") as f:
                return f.read()
        except FileNotFoundError:
            return None

    def step(self, kind, detail, effect):
        """Run ``effect()`` as one numbered step, honouring the plan."""
        p = self.plan
        if p is None or not p.armed:
            return effect()
        idx = len(p.steps)
        p.steps.append((kind, detail))
        if p.kill is not None and p.kill == (idx, "before"):
            _os._exit(137)
        if p.inject is not None and p.inject[0] == idx and p.inject[1] == "before":
            p.injected = OSError(p.inject[2], _os.strerror(p.inject[2]) + " [injected]")
            raise p.injected
        r = effect()
        if p.snapshot:
            p.images.append((idx, "after", self._image()))
        if p.kill is not None and p.kill == (idx, "after"):
            _os._exit(137)
        if p.inject is not None and p.inject[0] == idx and p.inject[1] == "after":
            p.injected = OSError(p.inject[2], _os.strerror(p.inject[2]) + " [injected]")
            raise p.injected
        return r

    # ------------------------------------------------------------------ open
    def open(self, path, mode="r", buffering=-1, encoding=None, errors=None, newline=None, closefd=True, opener=None):
        if not closefd or opener is not None:
            raise common.ToolingError(f"I/O seam: unsupported open({path!r}, {mode!r}) - extend tfmc/ioseam.py")
        binary = "b" in mode
        m = mode.replace("t", "").replace("b", "")
        raw = RecRaw(self, _os.fspath(path), m)
        if binary and buffering == 0:
            self.live.add(raw)
            return raw
        if "+" in m:
            buf = io.BufferedRandom(raw)
        elif m.startswith("r"):
            buf = io.BufferedReader(raw)
        else:
            buf = io.BufferedWriter(raw)
        if binary:
            self.live.add(raw)  # (the buffered object cannot be weak-referenced; closing its raw file is enough here)
            return buf
        txt = RecText(buf, encoding=encoding, errors=errors, newline=newline)
        txt._seam = self
        txt.mode = mode
        self.live.add(txt)
        return txt

    def named_temporary_file(self, mode="w+b", buffering=-1, encoding=None, newline=None, suffix=None, prefix=None,
                             dir=None, delete=True, **kw):
        if "b" in mode:
            raise common.ToolingError("I/O seam: binary NamedTemporaryFile not supported - extend tfmc/ioseam.py")
        fd, name = _tempfile.mkstemp(suffix=suffix, prefix=prefix, dir=dir)
        _os.close(fd)
        f = self.open(name, mode.replace("t", ""), encoding=encoding, newline=newline)
        f._delete_on_close = bool(delete) and kw.get("delete_on_close", True)
        return f


class RecRaw(io.RawIOBase):
    """A raw file whose every operation is a step; delegates to a real io.FileIO."""

    def __init__(self, seam, path, mode):
        super().__init__()
        self._seam = seam
        self._path = path
        self._mode = mode
        self._f = None  # stays None when the open itself fails (then closing / finalising is not a step)
        self._f = seam.step("open", (self._short(), mode), lambda: io.FileIO(path, mode))

    def _short(self):
        return "db" if (self._seam.plan and self._seam.plan.watch == self._path) else "tmp:" + _os.path.basename(self._path)[:3]

    @property
    def name(self):
        return self._path

    @property
    def mode(self):
        return self._f.mode

    def readable(self):
        return self._f.readable()

    def writable(self):
        return self._f.writable()

    def seekable(self):
        return True

    def fileno(self):
        return self._f.fileno()

    def readinto(self, b):
        return self._seam.step("readinto", (self._short(),), lambda: self._f.readinto(b))

    def write(self, b):
        def eff():
            self._seam.raw_writes += 1
            return self._f.write(b)

        return self._seam.step("write", (self._short(), len(b)), eff)

    def seek(self, pos, whence=0):
        return self._seam.step("seek", (self._short(), pos, whence), lambda: self._f.seek(pos, whence))

    def tell(self):
        return self._f.tell()

    def truncate(self, size=None):
        return self._seam.step("truncate", (self._short(), size), lambda: self._f.truncate(size))

    def close(self):
        if self.closed:
            return
        if self._f is None:
            super().close()
            return
        try:
            # an error injected *before* the step leaves the descriptor open (and this object not closed);
            # an error injected *after* it is reported although the descriptor is gone (what Linux does)
            self._seam.step("close", (self._short(),), self._f.close)
        finally:
            if self._f.closed:
                super().close()


class RecText(io.TextIOWrapper):
    """TextIOWrapper whose flush() is a step when it pushed bytes (after-effect errors only)."""

    _delete_on_close = False
    _seam = None

    def flush(self):
        seam = self._seam
        if seam is None or seam.plan is None or not seam.plan.armed:
            return super().flush()
        n0 = seam.raw_writes
        super().flush()
        if seam.raw_writes > n0:
            # an effective flush: offer the after-effect injection point
            seam.step("flush", ("effective",), lambda: None)

    def close(self):
        seam = self._seam
        if seam is not None and not self.closed:
            # the call the library makes is handle.close(): it may fail before anything was closed or flushed,
            # leaving the handle fully usable (a failure inside the raw close is the separate "close" step)
            seam.step("text-close", (self.buffer.raw._short(),), lambda: None)
        try:
            super().close()
        finally:
            if self._delete_on_close:
                self._delete_on_close = False
                try:
                    seam = self._seam
                    seam.step("unlink", ("tmp",), lambda: _os.unlink(self.buffer.raw.name))
                except FileNotFoundError:
                    pass


class OsProxy:
    """Forwarding proxy for the ``os`` module inside tinyflux.storages."""

    def __init__(self, seam):
        self._seam = seam
        self.path = _os.path

    def __getattr__(self, name):
        return getattr(_os, name)

    def fsync(self, fd):
        return self._seam.step("fsync", (), lambda: _os.fsync(fd))

    def fdatasync(self, fd):
        return self._seam.step("fsync", ("data",), lambda: _os.fdatasync(fd))

    def replace(self, src, dst, **kw):
        return self._seam.step("replace", (), lambda: _os.replace(src, dst, **kw))

    def rename(self, src, dst, **kw):
        return self._seam.step("rename", (), lambda: _os.rename(src, dst, **kw))

    def remove(self, p, **kw):
        return self._seam.step("unlink", (), lambda: _os.remove(p, **kw))

    def unlink(self, p, **kw):
        return self._seam.step("unlink", (), lambda: _os.unlink(p, **kw))

    def truncate(self, p, n):
        return self._seam.step("truncate", ("path", n), lambda: _os.truncate(p, n))


class ShutilProxy:
    """``shutil`` inside tinyflux.storages: copies are executed as explicit steps on the real files."""

    def __init__(self, seam):
        self._seam = seam

    def __getattr__(self, name):
        return getattr(_shutil, name)

    def copyfile(self, src, dst, **kw):
        seam = self._seam
        with builtins.open(src, "rb") as fsrc:
            fdst = seam.step("copy-open-dst", (), lambda: builtins.open(dst, "wb", buffering=0))
            try:
                while True:
                    chunk = fsrc.read(_shutil.COPY_BUFSIZE)
                    if not chunk:
                        break
                    seam.step("copy-chunk", (len(chunk),), lambda: fdst.write(chunk))
            finally:
                seam.step("copy-close", (), fdst.close) if not fdst.closed else None
        return dst

    def copymode(self, src, dst, **kw):
        return self._seam.step("copymode", (), lambda: _shutil.copymode(src, dst, **kw))

    def copy(self, src, dst, **kw):
        if _os.path.isdir(dst):
            dst = _os.path.join(dst, _os.path.basename(src))
        self.copyfile(src, dst)
        self.copymode(src, dst)
        return dst

    def copy2(self, src, dst, **kw):
        if _os.path.isdir(dst):
            dst = _os.path.join(dst, _os.path.basename(src))
        self.copyfile(src, dst)
        self._seam.step("copystat", (), lambda: _shutil.copystat(src, dst))
        return dst

    def move(self, src, dst, **kw):
        try:
            return self._seam.step("rename", ("move",), lambda: _os.rename(src, dst))
        except OSError as e:
            if e.errno != errno.EXDEV:
                raise
        self.copy2(src, dst)
        self._seam.step("unlink", ("move",), lambda: _os.unlink(src))
        return dst


SEAM = Seam()
