"""Batteries of reads run at a state and compared with the reference over the state's own contents."""

from . import qast, refmodel
from .checks.base import viol

SELECT_KEYS = ["time", ("measurement", "tags.a", "fields.v"), "tags.zz"]


def same_multiset(a, b):
    if len(a) != len(b):
        return False
    b = list(b)
    for x in a:
        for i, y in enumerate(b):
            if x == y:
                del b[i]
                break
        else:
            return False
    return True


def call(f, *a, **kw):
    try:
        return ("ret", f(*a, **kw))
    except Exception as e:  # noqa
        return ("exc", type(e).__name__, str(e)[:120])


def served_by(db, cfg):
    return "index" if (cfg["auto_index"] or db.index.valid) else "scan"


def read_battery(prop, db, stored, cfg, vocab, counters, filters=(None, "m", "n", "zz"), reduced=None,
                 select_filters=(None,), target=None):
    """Every query of ``vocab`` x measurement filter through search/count/contains/get/select.

    ``reduced`` = (filters, n): for those filters only the first n queries are used.
    ``target`` = callable(m) -> object exposing the read methods without a measurement argument
    (a Measurement handle); default is the database with the filter passed as argument.
    """
    out = []
    seen_sig = set()

    cur = {"keys": None}

    def bad(oracle, served, readop, ast, m, observed, expected):
        sig = f"{prop}|{served}|{readop}|shape={qast.shape(ast)}|filter={'y' if m is not None else 'n'}"
        if m == "" and _val(observed) == _unfiltered_read(readop, ast, stored, cur["keys"]):
            # the empty string as a measurement name is treated as "no filter" (known finding H21): one signature
            sig = f"{prop}|empty-measurement-name-treated-as-no-filter|reads"
        if sig in seen_sig:
            return
        seen_sig.add(sig)
        out.append(viol(oracle, sig, observed=observed, expected=expected, probe=(readop, ast, m), kind="state"))

    built = [qast.build(ast) for ast in vocab]  # fresh query objects per state
    nreads = 0
    for m in filters:
        if target is not None:
            obj, margs = target(m), ()
        else:
            obj, margs = db, ((m,) if m is not None else ())
        voc = vocab
        if reduced and m in reduced[0]:
            voc = vocab[: reduced[1]]
        for qi, ast in enumerate(voc):
            q = built[qi]
            served = served_by(db, cfg)
            counters["reads_" + served] += 1
            exp_idx = refmodel.select(stored, refmodel.q_pred(ast), m)
            exp = [stored[i] for i in exp_idx]
            if 0 < len(exp) < len(stored):
                counters["nonempty_partial_answers"] += 1
            r = call(obj.search, q, *margs)
            if r[0] == "exc":
                bad("search-raises", served, "search", ast, m, r, exp)
            else:
                got = [refmodel.rp_of_point(p) for p in r[1]]
                if not same_multiset(got, exp) or any(got[i][0] > got[i + 1][0] for i in range(len(got) - 1)):
                    bad("search-sorted", served, "search", ast, m, got, sorted(exp, key=lambda rp: rp[0]))
            r = call(obj.search, q, *margs, sorted=False)
            if r[0] == "exc":
                bad("search-raises", served, "search_unsorted", ast, m, r, exp)
            else:
                got = [refmodel.rp_of_point(p) for p in r[1]]
                if got != exp:
                    bad("search-insertion-order", served, "search_unsorted", ast, m, got, exp)
            r = call(obj.count, q, *margs)
            if r != ("ret", len(exp)):
                bad("count", served, "count", ast, m, r, len(exp))
            r = call(obj.contains, q, *margs)
            if r != ("ret", bool(exp)):
                bad("contains", served, "contains", ast, m, r, bool(exp))
            r = call(obj.get, q, *margs)
            e = exp[0] if exp else None
            g = r if r[0] == "exc" else (None if r[1] is None else refmodel.rp_of_point(r[1]))
            if g != e:
                bad("get-first", served, "get", ast, m, g, e)
            nreads += 5
            if m in select_filters:
                for keys in SELECT_KEYS:
                    cur["keys"] = keys
                    r = call(obj.select, keys, q, *margs)
                    e = refmodel.select_keys(stored, keys, ast, m)
                    if r != ("ret", e):
                        bad("select", served, "select", ast, m, r, e)
                    nreads += 1
    counters["observer_reads"] += nreads
    return out


def _val(observed):
    return observed[1] if isinstance(observed, tuple) and len(observed) == 2 and observed[0] == "ret" else observed


def _unfiltered_read(readop, ast, stored, keys):
    """What the read would answer if the measurement filter were ignored."""
    sel = [stored[i] for i in refmodel.select(stored, refmodel.q_pred(ast), None)]
    if readop == "search":
        return sorted(sel, key=lambda rp: rp[0])
    if readop == "search_unsorted":
        return sel
    if readop == "count":
        return len(sel)
    if readop == "contains":
        return bool(sel)
    if readop == "get":
        return sel[0] if sel else None
    if readop == "select":
        return refmodel.select_keys(stored, keys, ast, None)
    return object()


TAGKEY_SELECTIONS = [[], ["a"], ["b"], ["a", "zz"]]
FIELD_KEYS = ["v", "w", "zz"]


def getter_battery(prop, db, stored, cfg, counters, filters=(None, "m", "n", "zz"), target=None, handles=True):
    """Exploration getters, lengths, iteration, all() - for the database and per measurement."""
    out = []
    seen = set()

    cur = {"arg": None}

    def unfiltered(name):
        n = name[2:] if name.startswith("h.") else name
        if n == "len":
            return len(stored)
        if n in ("iter", "all_unsorted"):
            return stored
        if n == "all_sorted":
            return sorted(stored, key=lambda rp: rp[0])
        if n in ("get_tag_keys", "get_field_keys", "get_timestamps"):
            return getattr(refmodel, n)(stored, None)
        if n in ("get_tag_values", "get_field_values"):
            return getattr(refmodel, n)(stored, cur["arg"], None)
        return object()

    def bad(name, m, observed, expected, extra=""):
        served = served_by(db, cfg)
        sig = f"{prop}|{served}|{name}|filter={'y' if m is not None else 'n'}{extra}"
        if m == "" and _val(observed) == unfiltered(name):
            sig = f"{prop}|empty-measurement-name-treated-as-no-filter|getters"
        if sig in seen:
            return
        seen.add(sig)
        out.append(viol("getter", sig, observed=observed, expected=expected, probe=(name, m), kind="state"))

    def rps(points):
        return [refmodel.rp_of_point(p) for p in points]

    n = 0
    r = call(db.get_measurements)
    e = refmodel.get_measurements(stored)
    if r != ("ret", e):
        bad("get_measurements", None, r, e)
    r = call(len, db)
    if r != ("ret", len(stored)):
        bad("len", None, r, len(stored))
    r = call(lambda: rps(list(iter(db))))
    if r != ("ret", stored):
        bad("iter", None, r, stored)
    r = call(lambda: rps(db.all(sorted=False)))
    if r != ("ret", stored):
        bad("all_unsorted", None, r, stored)
    r = call(lambda: rps(db.all()))
    e = sorted(stored, key=lambda rp: rp[0])
    if r != ("ret", e):
        bad("all_sorted", None, r, e)
    n += 5
    for m in filters:
        margs = (m,) if m is not None else ()
        r = call(db.get_tag_keys, *margs)
        e = refmodel.get_tag_keys(stored, m)
        if r != ("ret", e):
            bad("get_tag_keys", m, r, e)
        r = call(db.get_field_keys, *margs)
        e = refmodel.get_field_keys(stored, m)
        if r != ("ret", e):
            bad("get_field_keys", m, r, e)
        for ks in TAGKEY_SELECTIONS:
            cur["arg"] = ks
            r = call(db.get_tag_values, list(ks), *margs)
            e = refmodel.get_tag_values(stored, ks, m)
            if r != ("ret", e):
                bad("get_tag_values", m, r, e, extra=f"|keys={len(ks)}")
        for k in FIELD_KEYS:
            cur["arg"] = k
            r = call(db.get_field_values, k, *margs)
            e = refmodel.get_field_values(stored, k, m)
            if r != ("ret", e):
                bad("get_field_values", m, r, e)
        r = call(db.get_timestamps, *margs)
        e = refmodel.get_timestamps(stored, m)
        if r != ("ret", e):
            bad("get_timestamps", m, r, e)
        n += 4 + len(TAGKEY_SELECTIONS) + len(FIELD_KEYS)
        if handles and m is not None:
            h = db.measurement(m)
            sub = [rp for rp in stored if rp[1] == m]
            r = call(len, h)
            if r != ("ret", len(sub)):
                bad("h.len", m, r, len(sub))
            r = call(lambda: rps(list(iter(h))))
            if r != ("ret", sub):
                bad("h.iter", m, r, sub)
            r = call(lambda: rps(h.all(sorted=False)))
            if r != ("ret", sub):
                bad("h.all_unsorted", m, r, sub)
            r = call(lambda: rps(h.all()))
            e = sorted(sub, key=lambda rp: rp[0])
            if r != ("ret", e):
                bad("h.all_sorted", m, r, e)
            for name, ref, args in (
                ("get_tag_keys", refmodel.get_tag_keys, ()),
                ("get_field_keys", refmodel.get_field_keys, ()),
                ("get_timestamps", refmodel.get_timestamps, ()),
            ):
                r = call(getattr(h, name))
                e = ref(stored, m)
                if r != ("ret", e):
                    bad("h." + name, m, r, e)
            for ks in TAGKEY_SELECTIONS:
                cur["arg"] = ks
                r = call(h.get_tag_values, list(ks))
                e = refmodel.get_tag_values(stored, ks, m)
                if r != ("ret", e):
                    bad("h.get_tag_values", m, r, e, extra=f"|keys={len(ks)}")
            for k in FIELD_KEYS:
                cur["arg"] = k
                r = call(h.get_field_values, k)
                e = refmodel.get_field_values(stored, k, m)
                if r != ("ret", e):
                    bad("h.get_field_values", m, r, e)
            n += 7 + len(TAGKEY_SELECTIONS) + len(FIELD_KEYS)
    counters["getter_reads"] += n
    return out


# ---------------------------------------------------------------------------------------------
# C06: every answer the index can give vs a freshly built index over the same contents


def fresh_index(stored):
    from tinyflux import Point
    from tinyflux.index import Index

    pts = []
    for t, m, tags, fields in stored:
        p = Point()
        p.time, p.measurement, p.tags, p.fields = t, m, dict(tags), dict(fields)
        pts.append(p)
    idx = Index()
    idx.build(pts)
    return idx


def _norm(v):
    if isinstance(v, (set, frozenset)):
        return sorted(v, key=repr)
    if isinstance(v, dict):
        return {k: _norm(x) for k, x in v.items()}
    return v


def index_answers(idx, vocab_built, measurements=(None, "m", "n", "zz")):
    """All answers of an Index, as a list of (label, value) pairs."""
    out = []
    for label, q in vocab_built:
        r = call(idx.search, q)
        if r[0] == "ret":
            r = ("ret", sorted(r[1].items), getattr(r[1], "_exact", None))
        out.append((("search", label), r))
    out.append((("get_measurements",), _norm(call(idx.get_measurements))))
    out.append((("len",), call(len, idx)))
    out.append((("empty",), call(lambda: idx.empty)))
    n = call(len, idx)
    if n[0] == "ret" and n[1]:
        out.append((("latest_time",), call(lambda: idx.latest_time)))
    for m in measurements:
        out.append((("get_tag_keys", m), _norm(call(idx.get_tag_keys, m))))
        out.append((("get_field_keys", m), _norm(call(idx.get_field_keys, m))))
        for ks in TAGKEY_SELECTIONS:
            r = call(idx.get_tag_values, list(ks), m)
            out.append((("get_tag_values", m, tuple(ks)), _norm(r) if r[0] == "exc" else ("ret", _norm(r[1]))))
        for k in FIELD_KEYS:
            out.append((("get_field_values", m, k), call(idx.get_field_values, k, m)))
        out.append((("get_timestamps", m), call(idx.get_timestamps, m)))
    return out


def index_equiv(prop, db, stored, vocab, counters, tag=""):
    """Compare the database's (valid) index with a rebuilt one; returns violations."""
    out = []
    if not db.index.valid:
        return out
    counters["index_equivalence_checks"] += 1
    built = [(qast.shape(a), qast.build(a)) for a in vocab]
    live = index_answers(db.index, built)
    fresh = index_answers(fresh_index(stored), built)
    seen = set()
    for (la, a), (lb, b) in zip(live, fresh):
        counters["index_answers_compared"] += 1
        if a != b:
            kind = la[0] + ("|shape=" + la[1] if la[0] == "search" else "")
            sig = f"{prop}|index-drift|{kind}{tag}"
            if sig in seen:
                continue
            seen.add(sig)
            out.append(viol("index-equals-rebuild", sig, observed=a, expected=b, probe=la, kind="state"))
    return out
