"""Alphabets: instants, strings, points, update specs and query vocabularies (DESIGN 3.1).

Everything is forced to collide: ties in time, duplicates, shared tag values across measurements,
None and "" values, a point without tags/fields, out-of-order instants.  ``VERIF_SEED`` only picks
one of three *renamings* (other constants with the same collision structure); every run is
exhaustive for the alphabet it uses.
"""

import datetime as _dt

from . import refmodel

UTC = _dt.timezone.utc

_BASES = [
    _dt.datetime(2021, 6, 1, 12, 0, 0, tzinfo=UTC),
    _dt.datetime(1999, 12, 31, 23, 59, 58, tzinfo=UTC),  # crosses a year boundary
    _dt.datetime(2038, 1, 19, 3, 14, 6, tzinfo=UTC),  # crosses 2^31 seconds
]
_STRS = [
    {"x": "x", "y": "y", "z": "z", "q": "q"},
    {"x": "xa", "y": "Y", "z": "zz z", "q": "q,1"},
    {"x": "xé", "y": "y;", "z": "z'", "q": "Q"},
]


class Alphabet:
    def __init__(self, seed=0, step=_dt.timedelta(seconds=1)):
        self.variant = seed % 3
        base = _BASES[self.variant]
        self.t = [base + i * step for i in range(4)]
        self.tmid = base + step / 2  # strictly between t0 and t1
        self.tlow = base - step
        self.thigh = base + 10 * step
        s = _STRS[self.variant]
        self.x, self.y, self.z, self.q = s["x"], s["y"], s["z"], s["q"]
        x, y = self.x, self.y
        t = self.t
        self.points = {
            "P0": (t[0], "m", {"a": x}, {"v": 1}),
            "P1": (t[1], "m", {"a": y, "b": x}, {"v": 2}),
            "P2": (t[1], "n", {"a": x}, {"w": 1}),
            "P3": (t[2], "m", {"a": None}, {"v": None}),
            "P4": (t[0], "n", {}, {}),
            "P5": (t[3], "m", {"a": ""}, {"v": 0}),
            "P6": (None, "m", {"a": x}, {"v": 1}),
            "P7": (t[2], "n", {"a": x + "\n" + y}, {"v": -1.5}),
            "P8": (t[2], "m", {"b": y}, {"v": 2.5, "w": 3}),
            "PU": (t[1] + _dt.timedelta(microseconds=1), "m", {"a": y}, {"v": 2}),      # one microsecond after P1 / P2
            "PH": (t[3], "m", {"a": x}, {"v": 2**53 + 1, "w": -(2**63)}),                 # integers a float cannot hold
            "PF": (_dt.datetime(2030, 1, 2, tzinfo=UTC), "m", {"a": x}, {"v": 1}),   # later than the virtual clock (2030-01-01)
            "P9": (t[2], "m", {}, {"v": 7}),                      # a second tag-less point (P4 has no tags either)
        }
        self._bind_update_fns()

    # -- points ------------------------------------------------------------------------------
    def mk_point(self, name):
        """A fresh tinyflux Point for alphabet entry ``name``."""
        from tinyflux import Point

        t, m, tags, fields = self.points[name]
        if t is not None and name[-1:] in "13579":
            # every other alphabet point is built through the constructor's keyword arguments
            return Point(time=t, measurement=m, tags=dict(tags), fields=dict(fields))
        p = Point()
        if t is not None:
            p.time = t
        p.measurement = m
        p.tags = dict(tags)
        p.fields = dict(fields)
        return p

    def ref_point(self, name, measurement=None, now=None):
        t, m, tags, fields = self.points[name]
        if measurement is not None:
            m = measurement
        return (refmodel.norm_time(t, now), m, dict(tags), dict(fields))

    # -- update functions (finite orbits inside the alphabet) ---------------------------------
    def _bind_update_fns(self):
        t = self.t
        z = self.z

        def t_swap(old):
            return t[1] if old == t[0] else t[0]

        def t_swap_offset(old):
            # the same orbit, but the callable answers in a non-UTC zone
            return t_swap(old).astimezone(_dt.timezone(_dt.timedelta(hours=5, minutes=45)))

        def m_swap(old):
            return "n" if old == "m" else "m"

        def tags_az(old):
            return {"a": z}

        def tags_copy_b(old):
            # depends on the old tags: b := old a (when a is a string)
            return {"b": old["a"]} if isinstance(old.get("a"), str) else {}

        def f_inc(old):
            v = old.get("v")
            return {"v": (v + 1) % 3} if isinstance(v, (int, float)) else {}

        def f_w9(old):
            return {"w": 9}

        refmodel.UPD_FN.update(
            t_swap=t_swap, t_swap_offset=t_swap_offset, m_swap=m_swap, tags_az=tags_az, tags_copy_b=tags_copy_b, f_inc=f_inc, f_w9=f_w9
        )

    # -- query vocabulary ----------------------------------------------------------------------
    def atoms(self, level="quick"):
        """Atom ASTs: every operator of every query type, rhs at / around / outside stored values."""
        t, x, y = self.t, self.x, self.y
        A = []
        # time: all six operators against t1 (tie instant), plus boundaries
        for op in ("==", "!=", "<", "<=", ">", ">="):
            A.append(("cmp", "time", (), op, t[1]))
        A += [
            ("cmp", "time", (), "<", t[0]),
            ("cmp", "time", (), ">=", t[0]),
            ("cmp", "time", (), ">", t[3]),
            ("cmp", "time", (), "<=", self.tmid),
            ("cmp", "time", (), ">", self.tmid),
            ("cmp", "time", (), "==", self.tmid),
            ("cmp", "time", (), "==", t[1] + _dt.timedelta(microseconds=1)),
            ("cmp", "time", (), "<", t[1] + _dt.timedelta(microseconds=1)),
            ("cmp", "time", (), "<=", t[2]),
            # same instant as t2, expressed in a non-UTC zone
            ("cmp", "time", (), ">=", t[2].astimezone(_dt.timezone(_dt.timedelta(hours=5, minutes=45)))),
            ("test", "time", (), "gt", (t[1],)),
            ("test", "time", (("map", "second"),), "is_even", ()),
            ("cmp", "time", (("map", "plus_1s"),), "==", t[2]),       # a mapped time compared with a datetime
            ("cmp", "time", (("map", "plus_1s"),), "<=", t[1]),
            ("noop", "time"),
        ]
        # measurement
        A += [
            ("cmp", "measurement", (), "==", "m"),
            ("cmp", "measurement", (), "!=", "m"),
            ("cmp", "measurement", (), "==", "zz"),
            ("cmp", "measurement", (), "<", "n"),
            ("regex", "matches", "measurement", (), "m|zz", 0),
            ("regex", "search", "measurement", (), "N", 2),  # re.IGNORECASE
            ("test", "measurement", (), "starts_x", ()),
            ("cmp", "measurement", (("map", "upper"),), "==", "N"),
            ("noop", "measurement"),
        ]
        # tags
        A += [
            ("cmp", "tags", ("a",), "==", x),
            ("cmp", "tags", ("a",), "!=", x),
            ("cmp", "tags", ("a",), "==", None),
            ("cmp", "tags", ("a",), "==", ""),
            ("cmp", "tags", ("a",), "<", y),
            ("cmp", "tags", ("b",), "==", x),
            ("cmp", "tags", ("zz",), "==", x),
            ("exists", "tags", ("a",)),
            ("exists", "tags", ("b",)),
            ("regex", "matches", "tags", ("a",), x[0], 0),
            ("regex", "matches", "tags", ("a",), x.upper(), 0),
            ("regex", "matches", "tags", ("a",), x.upper(), 2),     # same pattern, re.IGNORECASE
            ("regex", "search", "tags", ("a",), y.upper() if y.upper() != y else y.lower(), 2),
            ("test", "tags", ("a",), "starts_x", ()),
            ("test", "tags", ("a",), "is_none", ()),
            ("cmp", "tags", ("a", ("map", "upper")), "==", x.upper()),
            ("cmp", "tags", (("map", "rekey"), "z"), "==", x),
            ("cmp", "tags", (("map", "join_ab"), "z"), "==", y + "+" + x),   # function over two entries of the tag set
            ("test", "tags", (("map", "nkeys"),), "is_even", ()),
            ("noop", "tags"),
        ]
        # fields
        A += [
            ("cmp", "fields", ("v",), "==", 1),
            ("cmp", "fields", ("v",), "!=", 1),
            ("cmp", "fields", ("v",), "<", 2),
            ("cmp", "fields", ("v",), "<=", 0),
            ("cmp", "fields", ("v",), ">", 0),
            ("cmp", "fields", ("v",), ">=", 2),
            ("cmp", "fields", ("v",), "==", None),
            ("cmp", "fields", ("v",), "==", 2**53 + 1),
            ("cmp", "fields", ("v",), "<=", 2**53),
            ("cmp", "fields", ("w",), "==", 1),
            ("cmp", "fields", ("zz",), "<", 5),
            ("exists", "fields", ("v",)),
            ("exists", "fields", ("w",)),
            ("test", "fields", ("v",), "is_even", ()),
            ("test", "fields", ("v",), "is_none", ()),
            ("cmp", "fields", ("v", ("map", "plus_one")), "==", 2),
            ("test", "fields", (("map", "nkeys"),), "is_even", ()),
            ("cmp", "fields", (("map", "sum_vw"), "s"), "==", 5.5),              # function over two entries of the field set
            ("noop", "fields"),
        ]
        # naive comparison values: local time, like a naive point time (the process zone is pinned)
        A += [
            ("cmp", "time", (), "==", t[1].astimezone().replace(tzinfo=None)),
            ("cmp", "time", (), "<", t[2].astimezone().replace(tzinfo=None)),
        ]
        if level != "quick":
            for i in (0, 2, 3):
                for op in ("==", "!=", "<", "<=", ">", ">="):
                    A.append(("cmp", "time", (), op, t[i]))
            A += [
                ("cmp", "time", (), "<", self.tlow),
                ("cmp", "time", (), ">", self.tlow),
                ("cmp", "time", (), "<", self.thigh),
                ("cmp", "time", (), "!=", self.tmid),
                ("test", "time", (("map", "year"),), "gt", (t[0].year - 1,)),
                ("cmp", "measurement", (), ">=", "n"),
                ("regex", "search", "measurement", (), "^n$", 0),
                ("cmp", "tags", ("a",), ">=", x),
                ("cmp", "tags", ("a",), "!=", None),
                ("cmp", "tags", ("b",), "!=", x),
                ("regex", "search", "tags", ("b",), ".", 0),
                ("cmp", "fields", ("v",), "<", -1),
                ("cmp", "fields", ("v",), ">=", -1.5),
                ("cmp", "fields", ("v",), "!=", None),
                ("cmp", "fields", ("w",), ">", 1),
                ("cmp", "fields", ("v",), "==", 2.0),
            ]
        return A

    def representatives(self, n=12):
        """One atom per (attribute kind x exact/approximate behaviour in the index)."""
        t, x = self.t, self.x
        R = [
            ("cmp", "time", (), "<=", t[1]),
            ("cmp", "measurement", (), "==", "m"),
            ("cmp", "tags", ("a",), "==", x),
            ("cmp", "fields", ("v",), ">", 0),
            ("exists", "fields", ("w",)),
            ("cmp", "time", (), ">", self.tmid),
            ("noop", "tags"),
            ("cmp", "fields", ("v", ("map", "plus_one")), "==", 2),
            ("exists", "tags", ("b",)),
            ("cmp", "tags", (("map", "rekey"), "z"), "==", x),
            ("regex", "matches", "tags", ("a",), x[0], 0),
            ("regex", "matches", "tags", ("a",), x.upper(), 0),
            ("regex", "matches", "tags", ("a",), x.upper(), 2),     # same pattern, re.IGNORECASE
            ("cmp", "fields", ("v",), "==", None),
        ]
        return R[:n]

    def vocabulary(self, level="quick"):
        """Atoms, their negations and compounds (DESIGN C01)."""
        A = self.atoms(level)
        V = list(A) + [("not", a) for a in A]
        R = self.representatives(6 if level == "quick" else 12)
        for i, a in enumerate(R):
            for j, b in enumerate(R):
                if i == j:
                    continue
                if level == "quick" and j < i:
                    continue
                V.append(("and", a, b))
                V.append(("or", a, b))
        R2 = self.representatives(4 if level == "quick" else 6)
        for a in R2:
            V.append(("not", ("not", a)))
            for b in R2:
                if a is b:
                    continue
                V += [
                    ("not", ("and", a, b)),
                    ("not", ("or", a, b)),
                    ("and", ("not", a), b),
                    ("or", ("not", a), b),
                ]
                if level != "quick":
                    for c in R2[:3]:
                        V += [("or", ("and", a, b), c), ("and", ("or", a, b), c)]
        # dedupe, keep order
        seen, out = set(), []
        for q in V:
            if q not in seen:
                seen.add(q)
                out.append(q)
        return out
