"""E1 `histmc`: explicit-state breadth-first exploration of operation histories on the real objects.

A state is the history that reaches it; it is re-materialised by replaying the history on a fresh
database (live objects hold file handles and are never copied).  Each BFS level runs in two
phases over a pool of long-lived worker processes:

  phase A (expand):  for every frontier state and every enabled operation: rebuild the state,
                     perform the real call, run the check's transition oracles, compute the
                     canonical key of the successor;
  phase B (observe): for every successor whose key is new: rebuild it and run the check's state
                     observers (batteries of reads compared with the reference model).

The parent merges results in task order, so state/transition counts are deterministic.
"""

import collections
import multiprocessing
import os
import time
import traceback

from . import canon, common, world as W

_CTX = {}


class Transition:
    """Everything a transition oracle may look at."""

    __slots__ = (
        "cfg", "alpha", "history", "op", "pre", "outcome", "world", "post", "pre_bytes", "post_bytes",
        "pre_tmp", "post_tmp", "pre_dbdir", "post_dbdir", "pre_valid", "post_valid", "_ref", "extra",
    )

    def ref(self):
        """(expected contents, expected outcome) by the reference model, computed once."""
        if self._ref is None:
            self._ref = W.ref_apply(self.op, self.pre, self.alpha)
        return self._ref


def _impl_exception(exc):
    """If the exception was raised by code under REPO (the implementation), describe it; else None."""
    tb = exc.__traceback__
    last = None
    while tb is not None:
        last = tb
        tb = tb.tb_next
    if last is None:
        return None
    fn = last.tb_frame.f_code.co_filename
    if os.path.realpath(fn).startswith(os.path.realpath(common.REPO) + os.sep):
        return f"{type(exc).__name__}|in={os.path.basename(fn)}:{last.tb_frame.f_code.co_name}"
    return None


def _crash_violation(check, exc, where, history):
    """An exception escaping from tinyflux while the machinery was only observing is a finding, not a tooling error."""
    what = _impl_exception(exc)
    if what is None:
        return None
    return {"oracle": "no-unexpected-exception", "signature": f"{check.prop}|unexpected-exception-while-{where}|{what}",
            "observed": f"{type(exc).__name__}: {exc}"[:300], "expected": "no exception", "detail": traceback.format_exc()[-1500:],
            "probe": None, "kind": "state" if where == "observing" else "transition"}


def _init_worker(check, cfgs, alpha_args):
    common.scratch_root()
    _CTX["check"] = check
    _CTX["cfgs"] = cfgs
    _CTX["alpha"] = check.make_alphabet(*alpha_args)
    check.worker_init()


def _expand(task):
    ci, history, pre = task[:3]
    part = task[3] if len(task) > 3 else None
    try:
        return _expand_inner(ci, history, pre, part)
    except common.ToolingError:
        raise
    except Exception as e:
        v = _crash_violation(_CTX["check"], e, "expanding", history)
        if v is None:
            raise common.ToolingError("expand failed for history %r:\n%s" % (history, traceback.format_exc()))
        import collections as _c

        v["kind"] = "state"  # replayed by re-observing / re-expanding the state itself
        return [(("noop-marker",), ("exc",), None, None, [v])], _c.Counter()


def _expand_inner(ci, history, pre, part=None):
    check, cfg, alpha = _CTX["check"], _CTX["cfgs"][ci], _CTX["alpha"]
    out = []
    counters = collections.Counter()
    ops = check.ops(cfg)
    if part is not None:  # a small frontier is split by operation so that all workers have something to do
        ops = ops[part[0]::part[1]]
    for op in ops:
        if not check.enabled(op, pre, cfg, history):
            continue
        w = W.World.build(cfg, alpha, history)
        T = Transition()
        T.cfg, T.alpha, T.history, T.op, T.pre, T.world, T._ref = cfg, alpha, history, op, pre, w, None
        T.pre_bytes = w.file_bytes()
        T.pre_tmp, T.pre_dbdir = (w.tmp_listing(), w.db_listing()) if w.path else (None, None)
        T.pre_valid = w.db.index.valid
        T.extra = None
        T.outcome = check.apply(w, op, T)
        T.post_bytes = w.file_bytes()
        T.post_tmp, T.post_dbdir = (w.tmp_listing(), w.db_listing()) if w.path else (None, None)
        T.post_valid = w.db.index.valid
        viols = []
        try:
            T.post = w.stored()
        except Exception as e:  # storage unreadable after the op: the check decides what that means
            T.post = None
            viols += check.unreadable(T, e)
        key = None
        if T.post is not None:
            viols += check.transition(T, counters)
            if not check.is_probe(op, cfg):
                key = canon.state_key(w, T.post, T.post_bytes)
        w.close()
        out.append((op, T.outcome, key, T.post, viols))
    return out, counters


def _observe(task):
    ci, history, stored = task
    check, cfg, alpha = _CTX["check"], _CTX["cfgs"][ci], _CTX["alpha"]
    try:
        counters = collections.Counter()
        w = W.World.build(cfg, alpha, history)
        viols = check.observe(w, stored, history, cfg, counters)
        w.close()
        return viols, counters
    except common.ToolingError:
        raise
    except Exception as e:
        v = _crash_violation(check, e, "observing", history)
        if v is None:
            raise common.ToolingError("observe failed for history %r:\n%s" % (history, traceback.format_exc()))
        return [v], collections.Counter()


class _BudgetExceeded(Exception):
    pass


class Result:
    def __init__(self):
        self.states = 0
        self.transitions = 0
        self.observed_states = 0
        self.per_config = []
        self.violations = []  # full records, first per signature first
        self.viol_count = collections.Counter()  # signature -> occurrences
        self.counters = collections.Counter()
        self.samples = []
        self.exhaustive = True
        self.closed_all = True
        self.caps = []


def explore(check, cfgs, alpha_args, bounds, budget_s=None, workers=None, log=print):
    """Run one BFS per configuration. ``bounds`` = dict(N=max stored points, D=max depth, max_states=...)."""
    res = Result()
    workers = workers or common.ncpu()
    ctx = multiprocessing.get_context("fork")
    t_start = time.time()
    with ctx.Pool(workers, initializer=_init_worker, initargs=(check, cfgs, alpha_args)) as pool:
        try:
            for ci, cfg in enumerate(cfgs):
                _bfs(pool, check, ci, cfg, bounds, res, t_start, budget_s, workers, log)
                if os.environ.get("TFMC_FAIL_FAST") and res.violations:
                    break
        except _BudgetExceeded:
            skipped = [c["name"] for c in cfgs[len(res.per_config):]]
            if skipped:
                res.caps.append("not started because the time budget was used up: " + ", ".join(skipped))
            pool.terminate()
    return res


def _chunks(n, workers):
    return max(1, min(64, n // (workers * 6) or 1))


def _bfs(pool, check, ci, cfg, bounds, res, t_start, budget_s, workers, log):
    D = cfg.get("D", bounds["D"])
    max_states = bounds.get("max_states", 10**9)
    t0 = time.time()
    # initial state
    init_hist = tuple(cfg.get("init", ()))
    seen = set()
    frontier = [(init_hist, check.initial_contents(cfg))]
    # key of the initial state is computed by a degenerate expansion (no op): observe it directly
    viols0, c0 = pool.apply(_observe, ((ci, init_hist, frontier[0][1]),))
    res.counters.update(c0)
    _record(res, check, cfg, init_hist, viols0)
    states, transitions, depth, closed, capped = 1, 0, 0, False, None
    res.observed_states += 1
    while frontier:
        if depth >= D:
            break
        if budget_s is not None and time.time() - t_start > budget_s:
            capped = f"time budget {budget_s}s reached after completing depth {depth}"
            break
        if states >= max_states:
            capped = f"state cap {max_states} reached after completing depth {depth}"
            break
        split = max(1, min(8, workers // max(1, len(frontier)))) if len(frontier) < workers else 1
        tasks = [(ci, h, pre, (j, split)) for (h, pre) in frontier for j in range(split)]
        owners = [(h, pre) for (h, pre) in frontier for j in range(split)]
        new_frontier = []
        for (h, pre), (succs, counters) in zip(owners, pool.imap(_expand, tasks, _chunks(len(tasks), workers))):
            if budget_s is not None and time.time() - t_start > budget_s:
                _finish_capped(res, cfg, states, transitions, depth, t0, f"time budget {budget_s}s used up inside depth {depth + 1}; depth {depth} was completed")
                raise _BudgetExceeded()
            res.counters.update(counters)
            for op, outcome, key, post, viols in succs:
                if op == ("noop-marker",):
                    _record(res, check, cfg, h, viols)
                    continue
                transitions += 1
                h2 = h + (op,)
                _record(res, check, cfg, h2, viols)
                if key is None or key in seen:
                    continue
                seen.add(key)
                new_frontier.append((h2, post))
        depth += 1
        # phase B: observers on the new states
        otasks = [(ci, h, post) for (h, post) in new_frontier]
        for (h, post), (viols, counters) in zip(new_frontier, pool.imap(_observe, otasks, _chunks(len(otasks), workers))):
            if budget_s is not None and time.time() - t_start > budget_s:
                _finish_capped(res, cfg, states, transitions, depth - 1, t0, f"time budget {budget_s}s used up while observing depth {depth}; depth {depth - 1} was completed")
                raise _BudgetExceeded()
            res.counters.update(counters)
            _record(res, check, cfg, h, viols)
        res.observed_states += len(new_frontier)
        states += len(new_frontier)
        if len(res.samples) < 6 and new_frontier:
            res.samples.append({"config": cfg["name"], "history": [W.pretty_op(o) for o in new_frontier[-1][0]]})
        frontier = new_frontier
        log(f"  [{cfg['name']}] depth {depth}: +{len(new_frontier)} states (total {states}), {transitions} transitions, {time.time() - t0:.1f}s")
        if not new_frontier:
            closed = True
        if os.environ.get("TFMC_FAIL_FAST") and res.violations:
            capped = f"fail-fast: stopped after depth {depth} because violations were found"
            break
    if not frontier:
        closed = True
    res.states += states
    res.transitions += transitions
    res.per_config.append(
        {"config": cfg["name"], "states": states, "transitions": transitions, "depth_completed": depth,
         "closed": closed, "cap": capped, "wall_s": round(time.time() - t0, 2)}
    )
    if capped:
        res.caps.append(f"{cfg['name']}: {capped}")
        res.exhaustive = False
    if not closed:
        res.closed_all = False


def _finish_capped(res, cfg, states, transitions, depth, t0, why):
    res.states += states
    res.transitions += transitions
    res.per_config.append({"config": cfg["name"], "states": states, "transitions": transitions, "depth_completed": depth,
                           "closed": False, "cap": why, "wall_s": round(time.time() - t0, 2)})
    res.caps.append(f"{cfg['name']}: {why}")
    res.exhaustive = False
    res.closed_all = False


def _record(res, check, cfg, history, viols):
    for v in viols:
        v.setdefault("property", check.prop)
        v.setdefault("tier", check.tier)
        v.setdefault("seed", check.seed)
        v["config"] = cfg["name"]
        v["cfg"] = {k: cfg[k] for k in cfg if k not in ("name",)}
        v["history"] = list(history)
        sig = v["signature"]
        res.viol_count[sig] += 1
        if res.viol_count[sig] == 1:
            res.violations.append(v)
