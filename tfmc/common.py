"""Process set-up shared by every check: import binding, scratch space, clock, JSON codec.

Everything here is about *owning nondeterminism* (DESIGN 3.5):
  * tinyflux is imported from /repo's working tree and nowhere else;
  * all file I/O of a check happens in a private directory under /dev/shm, which
    is also the process's ``tempfile.tempdir``;
  * ``datetime.now`` as seen by tinyflux.database is a virtual clock;
  * the process time zone is pinned.
"""

import atexit
import datetime as _dt
import json
import os
import shutil
import sys
import tempfile
import time

REPO = os.environ.get("TFMC_REPO", "/repo")
VERIF = os.path.dirname(os.path.dirname(os.path.abspath(__file__)))

UTC = _dt.timezone.utc
RealDatetime = _dt.datetime


class ToolingError(Exception):
    """Neither pass nor violation: the machinery cannot be trusted (exit code 3)."""


# --------------------------------------------------------------------------- tinyflux import


def import_tinyflux():
    """Import tinyflux from REPO's working tree and assert that is what we got."""
    if REPO not in sys.path:
        sys.path.insert(0, REPO)
    _linecov_start()
    import tinyflux  # noqa

    where = os.path.realpath(os.path.dirname(tinyflux.__file__))
    want = os.path.realpath(os.path.join(REPO, "tinyflux"))
    if where != want:
        raise ToolingError(f"tinyflux imported from {where}, expected {want}")
    return tinyflux


# --------------------------------------------------------------------------- line coverage (diagnostic)

_LINECOV = None


def _linecov_start():
    """With TFMC_LINECOV=<dir>: record every tinyflux source line executed by this process and its forks.

    A diagnostic for the author of the checks (which library lines does a check never execute?), not part
    of any verdict.  Uses sys.monitoring LINE events that disable themselves after the first hit, so the
    cost after warm-up is nil; each process appends the new locations to <dir>/<pid>.
    """
    global _LINECOV
    d = os.environ.get("TFMC_LINECOV")
    if not d or _LINECOV is not None or not hasattr(sys, "monitoring"):
        return
    os.makedirs(d, exist_ok=True)
    root = os.path.realpath(os.path.join(REPO, "tinyflux")) + os.sep
    mon = sys.monitoring
    tool = mon.COVERAGE_ID
    mon.use_tool_id(tool, "tfmc-linecov")
    _LINECOV = True

    def on_line(code, line):
        fn = code.co_filename
        if fn.startswith(root):
            with open(os.path.join(d, str(os.getpid())), "a") as f:
                f.write(f"{fn[len(root):]}:{line}\n")
        return mon.DISABLE

    mon.register_callback(tool, mon.events.LINE, on_line)
    mon.set_events(tool, mon.events.LINE)


# --------------------------------------------------------------------------- scratch space

_SCRATCH = None


def scratch_root():
    """Private per-process directory (tmpfs when available).

    The first process of a run creates the top directory, exports it as TFMC_SCRATCH_PARENT and removes
    it at exit; forked pool workers and replay subprocesses (which leave through os._exit and never run
    atexit handlers) nest their own directories inside it, so nothing outlives the run.
    """
    global _SCRATCH
    if _SCRATCH is None or _SCRATCH[0] != os.getpid():
        parent = os.environ.get("TFMC_SCRATCH_PARENT")
        if parent and os.path.isdir(parent):
            base, owner = parent, False
        else:
            base, owner = ("/dev/shm" if os.path.isdir("/dev/shm") and os.access("/dev/shm", os.W_OK) else None), True
        d = tempfile.mkdtemp(prefix=f"tfmc-{os.getpid()}-", dir=base)
        _SCRATCH = (os.getpid(), d)
        os.makedirs(os.path.join(d, "tmp"))
        os.makedirs(os.path.join(d, "db"))
        tempfile.tempdir = os.path.join(d, "tmp")
        if owner:
            os.environ["TFMC_SCRATCH_PARENT"] = d
        atexit.register(_cleanup, os.getpid(), d)
    return _SCRATCH[1]


def _cleanup(pid, d):
    if os.getpid() == pid:
        shutil.rmtree(d, ignore_errors=True)
        if os.environ.get("TFMC_SCRATCH_PARENT") == d:
            del os.environ["TFMC_SCRATCH_PARENT"]


def tmp_dir():
    return os.path.join(scratch_root(), "tmp")


def db_dir():
    return os.path.join(scratch_root(), "db")


def wipe_dir(d):
    for n in os.listdir(d):
        p = os.path.join(d, n)
        if os.path.isdir(p) and not os.path.islink(p):
            shutil.rmtree(p, ignore_errors=True)
        else:
            try:
                os.unlink(p)
            except FileNotFoundError:
                pass


# --------------------------------------------------------------------------- time zone / clock


def set_tz(name):
    os.environ["TZ"] = name
    time.tzset()


class _VMeta(type(RealDatetime)):
    def __instancecheck__(cls, inst):
        return isinstance(inst, RealDatetime)


class VirtualDatetime(RealDatetime, metaclass=_VMeta):
    """Stand-in for ``datetime`` inside tinyflux.database: only ``now`` differs."""

    _now = RealDatetime(2030, 1, 1, tzinfo=UTC)
    _step = _dt.timedelta(0)
    _calls = 0

    @classmethod
    def now(cls, tz=None):
        VirtualDatetime._calls += 1
        v = VirtualDatetime._now
        VirtualDatetime._now = v + VirtualDatetime._step
        v = RealDatetime(v.year, v.month, v.day, v.hour, v.minute, v.second, v.microsecond, tzinfo=UTC)
        return v.astimezone(tz) if tz is not None else v.astimezone().replace(tzinfo=None)

    @classmethod
    def fromtimestamp(cls, ts, tz=None):
        return RealDatetime.fromtimestamp(ts, tz)

    @classmethod
    def fromisoformat(cls, s):
        return RealDatetime.fromisoformat(s)


CLOCK_START = RealDatetime(2030, 1, 1, tzinfo=UTC)


def install_clock(step_seconds=0):
    """Rebind tinyflux.database.datetime to the virtual clock (idempotent)."""
    import tinyflux.database as D

    D.datetime = VirtualDatetime
    reset_clock(step_seconds)


def reset_clock(step_seconds=0):
    VirtualDatetime._now = CLOCK_START
    VirtualDatetime._step = _dt.timedelta(seconds=step_seconds)
    VirtualDatetime._calls = 0


def clock_value():
    return VirtualDatetime._now


# --------------------------------------------------------------------------- JSON codec for artefacts


def jenc(o):
    """Encode histories / observations into JSON-able structures (lossless for our alphabets)."""
    if isinstance(o, RealDatetime):
        key = getattr(o.tzinfo, "key", None)
        if key:
            return {"$dt": o.replace(tzinfo=None).isoformat(), "$fold": o.fold, "$zi": key}
        return {"$dt": o.isoformat(), "$fold": o.fold}
    if isinstance(o, float):
        if o != o or o in (float("inf"), float("-inf")):
            return {"$f": repr(o)}
        return o
    if isinstance(o, (str, int, bool)) or o is None:
        return o
    if isinstance(o, bytes):
        return {"$b": o.decode("latin-1")}
    if isinstance(o, tuple):
        return {"$t": [jenc(i) for i in o]}
    if isinstance(o, list):
        return [jenc(i) for i in o]
    if isinstance(o, (set, frozenset)):
        return {"$s": sorted((jenc(i) for i in o), key=lambda x: json.dumps(x, sort_keys=True))}
    if isinstance(o, dict):
        return {"$d": [[jenc(k), jenc(v)] for k, v in o.items()]}
    if isinstance(o, BaseException):
        return {"$exc": type(o).__name__, "msg": str(o)}
    return {"$repr": repr(o)}


def jdec(o):
    if isinstance(o, list):
        return [jdec(i) for i in o]
    if isinstance(o, dict):
        if "$dt" in o:
            d = RealDatetime.fromisoformat(o["$dt"]).replace(fold=o.get("$fold", 0))
            if "$zi" in o:
                import zoneinfo

                d = d.replace(tzinfo=zoneinfo.ZoneInfo(o["$zi"]))
            return d
        if "$f" in o:
            return float(o["$f"])
        if "$b" in o:
            return o["$b"].encode("latin-1")
        if "$t" in o:
            return tuple(jdec(i) for i in o["$t"])
        if "$s" in o:
            return frozenset(jdec(i) for i in o["$s"])
        if "$d" in o:
            return {jdec(k): jdec(v) for k, v in o["$d"]}
        if "$repr" in o:
            return o["$repr"]
        return {k: jdec(v) for k, v in o.items()}
    return o


def short(o, n=400):
    s = repr(o)
    return s if len(s) <= n else s[: n - 3] + "..."


def env_seed():
    try:
        return int(os.environ.get("VERIF_SEED", "0"))
    except ValueError:
        return 0


def ncpu():
    try:
        return max(1, int(os.environ.get("TFMC_WORKERS", "0")) or len(os.sched_getaffinity(0)))
    except Exception:
        return os.cpu_count() or 1
