"""Replay a recorded violation with plain API calls (no explorer)."""

import importlib

from . import common, findings


def load_check(prop, tier="quick", seed=0):
    mod = importlib.import_module(f"tfmc.checks.{prop.lower()}")
    return mod.make(tier, seed)


def replay_file(path):
    """Returns (reproduced: bool, info: dict)."""
    rec = findings.load_replay(path)
    common.import_tinyflux()
    common.scratch_root()
    check = load_check(rec["property"], rec.get("tier", "quick"), rec.get("seed", 0))
    if hasattr(check, "worker_init"):
        check.worker_init()
    if rec.get("tz"):
        common.set_tz(rec["tz"])
    seen = check.recheck(rec)
    same = [v for v in seen if v["signature"] == rec["signature"]]
    info = {
        "signature": rec["signature"],
        "reproduced": bool(same),
        "observed": common.short(same[0]["observed"]) if same else None,
        "expected": common.short(same[0]["expected"]) if same else None,
        "other_signatures": sorted({v["signature"] for v in seen if v["signature"] != rec["signature"]}),
    }
    return bool(same), info
