"""Evidence files (/verif/evidence/<id>.json), with a minimal built-in schema check (DESIGN 3.7)."""

import json
import os

from . import common

EVID_DIR = os.environ.get("TFMC_EVIDENCE_DIR") or os.path.join(common.VERIF, "evidence")

LEVELS = ("exploration", "fault_enumeration", "model_checking", "proof", "translation_validation", "other")


def validate(ev):
    """The subset of EVIDENCE.schema.json our levels need; raises ToolingError when violated."""

    def need(c, msg):
        if not c:
            raise common.ToolingError("evidence invalid: " + msg)

    for k in ("property_id", "tier", "seed", "level", "coverage", "wall_s"):
        need(k in ev, f"missing {k}")
    need(ev["tier"] in ("quick", "thorough"), "tier")
    need(isinstance(ev["seed"], int), "seed")
    need(ev["level"] in LEVELS, "level")
    need(isinstance(ev["wall_s"], (int, float)), "wall_s")
    cov = ev["coverage"]
    need(isinstance(cov, dict), "coverage")
    if ev["level"] in ("exploration", "fault_enumeration"):
        need(isinstance(cov.get("evaluations"), int) and cov["evaluations"] >= 1, "evaluations")
        need(isinstance(cov.get("distinct_nontrivial"), int) and cov["distinct_nontrivial"] >= 2, "distinct_nontrivial")
        need(isinstance(cov.get("rule"), str), "rule")
        need(isinstance(cov.get("samples"), list) and len(cov["samples"]) >= 1, "samples")
    if ev["level"] == "model_checking" and not ("evaluations" in cov and "states" not in cov):
        need(isinstance(cov.get("states"), int) and cov["states"] >= 1, "states")
        need(isinstance(cov.get("transitions"), int) and cov["transitions"] >= 1, "transitions")
        need(isinstance(cov.get("traces_validated_against_impl"), int), "traces_validated_against_impl")
        need(isinstance(cov.get("samples"), list) and len(cov["samples"]) >= 1, "samples")
    json.dumps(ev)  # must be serialisable


def write(prop, tier, seed, level, coverage, wall_s, violations, assumptions):
    ev = {
        "property_id": prop,
        "tier": tier,
        "seed": int(seed),
        "level": level,
        "coverage": coverage,
        "assumptions": list(assumptions),
        "wall_s": round(float(wall_s), 2),
        "violations": int(violations),
    }
    validate(ev)
    os.makedirs(EVID_DIR, exist_ok=True)
    path = os.path.join(EVID_DIR, f"{prop}.json")
    tmp = path + ".tmp"
    with open(tmp, "w") as f:
        json.dump(ev, f, indent=1, sort_keys=True, default=str)
        f.write("\n")
    os.replace(tmp, path)
    return path
