"""tfmc - bounded-exhaustive model checking machinery for tinyflux (see /verif/DESIGN.md)."""
