"""The boring reference model: a database is a Python list of reference points in insertion order.

A reference point is a 4-tuple ``(time, measurement, tags, fields)``: ``time`` an aware datetime
(compared as an instant), ``tags``/``fields`` plain dicts.  Written from the documentation and the
property statements; no index, no files, no code shared with tinyflux.
"""

import datetime as _dt

from . import qast

UTC = _dt.timezone.utc


def rp_of_point(p):
    """Snapshot a tinyflux Point into a reference point (copies the dicts)."""
    return (p.time, p.measurement, dict(p.tags), dict(p.fields))


def rp_copy(rp):
    return (rp[0], rp[1], dict(rp[2]), dict(rp[3]))


def contents_copy(c):
    return [rp_copy(r) for r in c]


def norm_time(t, now):
    """Insert-time normalisation: None -> clock value, naive -> local, then the same instant in UTC."""
    if t is None:
        return now
    return t.astimezone(UTC)


def select(contents, pred, mfilter=None):
    """Indices of the points selected by predicate ``pred`` (on ref points) under measurement filter."""
    return [
        i
        for i, rp in enumerate(contents)
        if (mfilter is None or rp[1] == mfilter) and pred(rp)
    ]


def q_pred(ast):
    return lambda rp: qast.ref_eval(ast, rp)


def search(contents, ast, mfilter=None, sort=True):
    sel = [contents[i] for i in select(contents, q_pred(ast), mfilter)]
    if sort:
        sel = sorted(sel, key=lambda rp: rp[0])  # stable
    return sel


def select_keys(contents, keys, ast, mfilter=None):
    single = isinstance(keys, str)
    ks = [keys] if single else list(keys)
    out = []
    for i in select(contents, q_pred(ast), mfilter):
        rp = contents[i]
        row = []
        for k in ks:
            if k == "time":
                row.append(rp[0])
            elif k == "measurement":
                row.append(rp[1])
            elif k.startswith("tags."):
                row.append(rp[2].get(k[5:]))
            else:
                row.append(rp[3].get(k[7:]))
        out.append(row[0] if len(ks) == 1 else tuple(row))
    return out


def remove(contents, pred, mfilter=None):
    sel = set(select(contents, pred, mfilter))
    return [rp for i, rp in enumerate(contents) if i not in sel], len(sel)


# ---- updates ------------------------------------------------------------------------------
# An update spec is a dict with optional keys time, measurement, tags, fields, unset_tags,
# unset_fields.  A value is static or ("fn", name) referring to UPD_FN.


def _t_swap(t):
    # finite orbit inside the instant alphabet; installed by alphabet.bind_time_fns
    raise NotImplementedError


UPD_FN = {}


def apply_update_to(rp, spec):
    """Reference semantics of one update on one point. Returns the new ref point."""
    t, m, tags, fields = rp[0], rp[1], dict(rp[2]), dict(rp[3])
    if spec.get("time"):
        v = spec["time"]
        t = UPD_FN[v[1]](t) if _is_fn(v) else v
        t = t.astimezone(UTC)
    if spec.get("measurement"):
        v = spec["measurement"]
        m = UPD_FN[v[1]](m) if _is_fn(v) else v
    if spec.get("tags"):
        v = spec["tags"]
        tags.update(UPD_FN[v[1]](dict(tags)) if _is_fn(v) else v)
    if spec.get("fields"):
        v = spec["fields"]
        fields.update(UPD_FN[v[1]](dict(fields)) if _is_fn(v) else v)
    for k in _aslist(spec.get("unset_tags")):
        tags.pop(k, None)
    for k in _aslist(spec.get("unset_fields")):
        fields.pop(k, None)
    return (t, m, tags, fields)


def _is_fn(v):
    return isinstance(v, tuple) and len(v) == 2 and v[0] == "fn"


def is_oneshot(v):
    """("it", (k, ...)): the keys are handed to the real call as a one-shot iterator (Iterable[str])."""
    return isinstance(v, tuple) and len(v) == 2 and v[0] == "it" and isinstance(v[1], tuple)


def _aslist(v):
    if not v:
        return []
    if is_oneshot(v):
        return list(v[1])
    return [v] if isinstance(v, str) else list(v)


def update(contents, pred, spec, mfilter=None):
    """Returns (new contents, number of points whose content changed)."""
    sel = set(select(contents, pred, mfilter))
    out, n = [], 0
    for i, rp in enumerate(contents):
        if i in sel:
            new = apply_update_to(rp, spec)
            if new != rp:
                n += 1
            out.append(new)
        else:
            out.append(rp_copy(rp))
    return out, n


# ---- getters -------------------------------------------------------------------------------


def _restrict(contents, m):
    return [rp for rp in contents if m is None or rp[1] == m]


def get_measurements(contents):
    return sorted({rp[1] for rp in contents})


def get_tag_keys(contents, m=None):
    return sorted({k for rp in _restrict(contents, m) for k in rp[2]})


def get_field_keys(contents, m=None):
    return sorted({k for rp in _restrict(contents, m) for k in rp[3]})


def get_tag_values(contents, keys=(), m=None):
    rst = {k: set() for k in keys}
    for rp in _restrict(contents, m):
        for k, v in rp[2].items():
            if keys and k not in rst:
                continue
            rst.setdefault(k, set()).add(v)
    return {k: sorted(v, key=lambda x: (x is None, x)) for k, v in rst.items()}


def get_field_values(contents, key, m=None):
    return [rp[3][key] for rp in _restrict(contents, m) if key in rp[3]]


def get_timestamps(contents, m=None):
    return [rp[0] for rp in _restrict(contents, m)]
