"""Canonical state key (DESIGN 3.1): the full concrete state that can influence the future.

A generic walker over the object graph of the TinyFlux instance - every attribute of the facade,
the index and the storage, with value *and* type, aliasing between mutable objects made explicit -
plus mutable module-level state of tinyflux, the database file bytes, the held measurement handles and, for
file-backed storages, the outcome of the last read transition (which determines where the text
layer's file position was left; CPython does not expose it while iteration is suspended).

Files lying in the temp directory are *not* part of the key: tinyflux creates temp files under
fresh random names only and never reopens an old one, so a closed leftover cannot influence any
future behaviour (leftovers themselves are C15's subject and are checked per transition).

The key can only be too fine (costs time), never too coarse: two states with equal keys are the
same Python values attached to the same bytes on disk.
"""

import datetime as _dt
import hashlib
import io
import os

from . import common


def walk(o, memo):
    if isinstance(o, str):
        root = common._SCRATCH[1] if common._SCRATCH else None
        return ("str", o.replace(root, "<scratch>") if root and root in o else o)
    if o is None or isinstance(o, (bool, int, bytes)):
        return (type(o).__name__, o)
    if isinstance(o, float):
        return ("float", repr(o))
    if isinstance(o, _dt.datetime):
        return ("dt", o.isoformat(), repr(o.tzinfo), o.fold)
    if isinstance(o, (io.IOBase,)) or hasattr(o, "file") and hasattr(o, "name") and hasattr(o, "close"):
        # file objects and tempfile wrappers: mode / closed only; bytes are keyed separately
        try:
            closed = bool(o.closed)
        except Exception:
            closed = None
        return ("file", getattr(o, "mode", None), closed)
    oid = id(o)
    if oid in memo:
        return ("ref", memo[oid])
    tn = type(o).__name__
    if isinstance(o, (list, tuple)):
        if isinstance(o, list):
            memo[oid] = len(memo)
        return (tn, tuple(walk(i, memo) for i in o))
    if isinstance(o, dict):
        memo[oid] = len(memo)
        return (tn, tuple((walk(k, memo), walk(v, memo)) for k, v in o.items()))
    if isinstance(o, (set, frozenset)):
        return (tn, tuple(sorted((walk(i, memo) for i in o), key=repr)))
    if tn == "Measurement":
        return ("Measurement", getattr(o, "_name", None))
    if tn == "Point":
        memo[oid] = len(memo)
        return ("Point", walk(o._time, memo), walk(o._measurement, memo), walk(o._tags, memo), walk(o._fields, memo))
    if callable(o) and not hasattr(o, "__dict__"):
        return ("callable", getattr(o, "__qualname__", tn))
    d = getattr(o, "__dict__", None)
    if d is not None:
        memo[oid] = len(memo)
        return (tn, tuple((k, walk(v, memo)) for k, v in sorted(d.items())))
    slots = getattr(type(o), "__slots__", None)
    if slots:
        memo[oid] = len(memo)
        return (tn, tuple((s, walk(getattr(o, s, None), memo)) for s in slots))
    if isinstance(o, os.PathLike):
        return ("path", os.fspath(o))
    return ("repr", tn)


def state_struct(world, stored=None, file_bytes=None):
    """The structure that is hashed into the key (also used to explain key differences)."""
    memo = {}
    s = [("db", walk(world.db, memo))]
    held = []
    for name, h in sorted(world.handles.items()):
        held.append((name, h is world.db._measurements.get(name)))
    s.append(("held", tuple(held)))
    if world.path is not None:
        s.append(("bytes", file_bytes if file_bytes is not None else world.file_bytes()))
        s.append(("last_read", repr(world.last_read)))
    if stored is not None:
        s.append(("stored", walk(stored, {})))
    s.append(("globals", module_globals()))
    return s


_MODS = ("database", "storages", "index", "queries", "point", "measurement", "utils")


def module_globals():
    """Mutable module-level state of tinyflux (a hoisted buffer / handle / cache would live here)."""
    import importlib
    import types

    out = []
    for m in _MODS:
        mod = importlib.import_module("tinyflux." + m)
        for k, v in sorted(vars(mod).items()):
            if k.startswith("__"):
                continue
            if isinstance(v, (types.ModuleType, types.FunctionType, types.BuiltinFunctionType, type)):
                continue
            if isinstance(v, (list, dict, set, bytearray, io.IOBase)) or type(v).__module__.startswith("tinyflux"):
                out.append((m, k, walk(v, {})))
    return tuple(out)


def state_key(world, stored=None, file_bytes=None):
    return hashlib.blake2b(repr(state_struct(world, stored, file_bytes)).encode("utf-8", "surrogatepass"), digest_size=16).digest()
