#!/bin/sh
# ./run.sh <property id> <quick|thorough>   |   ./run.sh replay <file>   |   ./run.sh selftest
cd "$(dirname "$0")" || exit 3
export PYTHONHASHSEED=0 PYTHONDONTWRITEBYTECODE=1 PYTHONUTF8=1
exec /venv/bin/python -m tfmc.run "$@"
