import sys, json, glob
sys.path.insert(0,'/verif')
from tfmc import common, world as W, qast
pat = sys.argv[1] if len(sys.argv)>1 else ''
recs=[]
for f in glob.glob('/verif/replays/*.json'):
    r = common.jdec(json.load(open(f)))
    if pat in r['signature']:
        recs.append((len(r['history']), f, r))
recs.sort(key=lambda x:(x[0],x[1]))
for n,f,r in recs[:int(sys.argv[2]) if len(sys.argv)>2 else 3]:
    print(f, r['signature'], r['config'])
    print('  hist:', [W.pretty_op(tuple(o)) for o in r['history']])
    if r.get('probe'): 
        p=r['probe']; print('  probe:', p[0], qast.pretty(p[1]) if isinstance(p[1],tuple) else p[1], p[2:])
    print('  observed:', common.short(r['observed'],600))
    print('  expected:', common.short(r['expected'],600))
