#!/usr/bin/env python3
"""Print the detection matrix of the seeded changes (markdown) from seeded/*/meta.json."""
import glob
import json
import os
import re

VERIF = os.path.dirname(os.path.dirname(os.path.abspath(__file__)))


def first_line(path):
    try:
        for l in open(path):
            l = l.strip().lstrip("#").strip()
            if l:
                return l[:110]
    except OSError:
        pass
    return ""


rows = []
for f in sorted(glob.glob(os.path.join(VERIF, "seeded", "*", "meta.json"))):
    m = json.load(open(f))
    if m.get("kept") is False:
        continue
    d = os.path.dirname(f)
    own = m["property"]
    det = m.get("detected_by", []) + [c + "(thorough)" for c in m.get("detected_by_thorough", [])]
    ran = sorted(m.get("checks", {}))
    rows.append((m["seed"], own, "yes" if m.get("confirmed") else "NO", "yes" if own in det else ("thorough tier" if own + "(thorough)" in det else "no"),
                 " ".join(det) or "-", " ".join(c for c in ran if c not in det) or "-", first_line(os.path.join(d, "notes.md"))))
print("| seeded change | breaks | confirmed | caught by its own check | caught by | ran silent | what it is |")
print("|---|---|---|---|---|---|---|")
for r in rows:
    print("| " + " | ".join(r) + " |")
n = len(rows)
print(f"\n{n} changes; {sum(1 for r in rows if r[3] == 'yes')} caught by the quick check of the property they were written against "
      f"(+{sum(1 for r in rows if r[3] == 'thorough tier')} by its thorough tier only); "
      f"{sum(1 for r in rows if r[4] != '-')} caught by at least one check.")
