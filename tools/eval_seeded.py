#!/usr/bin/env python3
"""Confirm a seeded property-breaking change and run the checks against it.

usage: eval_seeded.py <seed-id> <property> <patch.diff> <demo.py> [notes.md] [--checks C01,C02,...]

1. In a scratch worktree of /repo (removed afterwards): the demo passes on the clean tree; with the
   patch applied the unedited test-suite still passes (149) and the demo fails.
2. The quick checks are run against a second scratch worktree with the patch applied (TFMC_REPO),
   with private evidence/replay directories, so /repo and /verif/evidence are not touched.
3. Everything is stored under /verif/seeded/<seed-id>/ (patch.diff, demo.py, notes.md, meta.json).
"""
import json
import os
import shutil
import subprocess
import sys
import time

VERIF = os.path.dirname(os.path.dirname(os.path.abspath(__file__)))
ALL = [f"C{i:02d}" for i in range(1, 19)]


def sh(cmd, **kw):
    return subprocess.run(cmd, shell=True, capture_output=True, text=True, **kw)


def main():
    args = [a for a in sys.argv[1:] if not a.startswith("--")]
    sid, prop, patch, demo = args[:4]
    notes = args[4] if len(args) > 4 else None
    checks = ALL
    for a in sys.argv[1:]:
        if a.startswith("--checks="):
            checks = a.split("=", 1)[1].split(",")
    wt = f"/tmp/eval-{sid}"
    sh(f"git -C /repo worktree remove --force {wt}")
    base = os.environ.get("EVAL_BASE", "HEAD")  # the commit the seeded change was written against
    r = sh(f"git -C /repo worktree add -q --detach {wt} {base}")
    assert r.returncode == 0, r.stderr
    meta = {"seed": sid, "property": prop, "repo_head": sh(f"git -C /repo rev-parse {os.environ.get('EVAL_BASE', 'HEAD')}").stdout.strip(), "ran": []}
    try:
        env = f"cd {wt} && PYTHONPATH={wt} "
        # the demo is run from inside the scratch worktree: Python puts the script's own directory first on sys.path
        shutil.copy(demo, os.path.join(wt, "_seeded_demo.py"))
        demo_in_wt = os.path.join(wt, "_seeded_demo.py")
        r = sh(env + f"/venv/bin/python {demo_in_wt}")
        meta["demo_on_clean_tree_exit"] = r.returncode
        meta["ran"].append(f"PYTHONPATH=<clean worktree> python demo.py -> exit {r.returncode}")
        r = sh(f"git -C {wt} apply {os.path.abspath(patch)}")
        meta["patch_applies"] = r.returncode == 0
        if r.returncode:
            print("PATCH DOES NOT APPLY", r.stderr)
            return 2
        r = sh(env + "/venv/bin/python -m pytest -q -p no:cacheprovider 2>&1 | tail -1")
        meta["tests_with_patch"] = r.stdout.strip()
        meta["ran"].append(f"pytest in patched worktree -> {r.stdout.strip()}")
        r = sh(env + f"/venv/bin/python {demo_in_wt}")
        meta["demo_on_patched_tree_exit"] = r.returncode
        meta["ran"].append(f"PYTHONPATH=<patched worktree> python demo.py -> exit {r.returncode}")
        confirmed = meta["demo_on_clean_tree_exit"] == 0 and meta["demo_on_patched_tree_exit"] != 0 and "149 passed" in meta["tests_with_patch"]
        meta["confirmed"] = confirmed
        print(json.dumps({k: meta[k] for k in ("demo_on_clean_tree_exit", "tests_with_patch", "demo_on_patched_tree_exit", "confirmed")}))
        if not confirmed:
            return 1
        os.unlink(demo_in_wt)
        # run the checks against the patched worktree
        ev = f"/tmp/eval-{sid}-evidence"
        rp = f"/tmp/eval-{sid}-replays"
        shutil.rmtree(ev, ignore_errors=True)
        shutil.rmtree(rp, ignore_errors=True)
        results = {}
        for c in checks:
            t0 = time.time()
            # fail-fast: the question here is only whether the check raises an alarm on the changed tree
            r = sh(f"cd {VERIF} && TFMC_FAIL_FAST=1 TFMC_MAX_GATE=3 TFMC_REPO={wt} TFMC_EVIDENCE_DIR={ev} TFMC_REPLAY_DIR={rp} ./run.sh {c} quick")
            nviol = sum(1 for l in r.stdout.splitlines() if l.startswith("VIOLATION"))
            sigs = [l.strip()[len("signature: "):] for l in r.stdout.splitlines() if l.strip().startswith("signature: ")]
            results[c] = {"exit": r.returncode, "violation_lines": nviol, "first_signatures": sigs[:3], "wall_s": round(time.time() - t0, 1)}
            tail = r.stdout.strip().splitlines()[-1] if r.stdout.strip() else r.stderr[-200:]
            print(c, r.returncode, nviol, tail[:120], flush=True)
        meta["checks"] = results
        meta["detected_by"] = [c for c, v in results.items() if v["exit"] == 1]
        meta["tooling_errors"] = [c for c, v in results.items() if v["exit"] not in (0, 1)]
        shutil.rmtree(ev, ignore_errors=True)
        shutil.rmtree(rp, ignore_errors=True)
    finally:
        sh(f"git -C /repo worktree remove --force {wt}")
    out = os.path.join(VERIF, "seeded", sid)
    os.makedirs(out, exist_ok=True)
    shutil.copy(patch, os.path.join(out, "patch.diff"))
    shutil.copy(demo, os.path.join(out, "demo.py"))
    if notes and os.path.exists(notes):
        shutil.copy(notes, os.path.join(out, "notes.md"))
    with open(os.path.join(out, "meta.json"), "w") as f:
        json.dump(meta, f, indent=1)
    print("detected by:", meta.get("detected_by"))
    return 0


if __name__ == "__main__":
    sys.exit(main())
