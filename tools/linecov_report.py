#!/venv/bin/python
"""Report tinyflux source lines never executed under TFMC_LINECOV=<dir> runs: tools/linecov_report.py <dir> [repo]."""
import ast, os, sys, collections

d = sys.argv[1]
repo = sys.argv[2] if len(sys.argv) > 2 else "/repo"
hit = collections.defaultdict(set)
for n in os.listdir(d):
    for ln in open(os.path.join(d, n)):
        f, _, l = ln.strip().rpartition(":")
        if f:
            hit[f].add(int(l))
for f in sorted(os.listdir(os.path.join(repo, "tinyflux"))):
    if not f.endswith(".py"):
        continue
    src = open(os.path.join(repo, "tinyflux", f)).read()
    code = compile(src, f, "exec")
    lines = set()

    def walk(c):
        for _, _, l in c.co_lines():
            if l:
                lines.add(l)
        for k in c.co_consts:
            if hasattr(k, "co_lines"):
                walk(k)

    walk(code)
    # drop docstring / def lines noise: keep only lines that start a statement
    stmts = {n.lineno for n in ast.walk(ast.parse(src)) if isinstance(n, ast.stmt) and not (isinstance(n, ast.Expr) and isinstance(n.value, ast.Constant))}
    want = lines & stmts
    miss = sorted(want - hit[f])
    print(f"{f}: {len(want) - len(miss)}/{len(want)} statements executed")
    srcl = src.splitlines()
    for l in miss:
        print(f"   {l:5d}  {srcl[l - 1].strip()[:110]}")
